// Replays API histories (spec/LocalNetModel.tla) on GNU_gama::local::LocalNetwork objects.
// input:  NET <id> <gkf path>            (any number)
//         HIST <hid> <net id> <n>        followed by n lines:  Q <what> | U <stage> | ALG <name> | M0 <apriori|aposteriori> |
//                                         CONF <p> | APR <m0> | RMABS | REFINE
// output: one JSON line per operation: history, step, op, flags after the call [pts, obs, eq, adj], answer of a query
#include "vh.h"
#include <gnu_gama/xml/gkfparser.h>
#include <gnu_gama/local/network.h>
#include <gnu_gama/local/acord/acord2.h>
#include <gnu_gama/local/test_linearization_visitor.h>
#include <map>
#include <memory>
using namespace vh;
using GNU_gama::local::LocalNetwork;

static std::unique_ptr<LocalNetwork> load(const std::string& path) {
  std::unique_ptr<LocalNetwork> net(new LocalNetwork);
  std::ifstream in(path);
  std::string text((std::istreambuf_iterator<char>(in)), std::istreambuf_iterator<char>());
  GNU_gama::local::GKFparser gkf(*net);
  gkf.xml_parse(text.c_str(), (int)text.size(), 1);
  if (!net->has_algorithm()) net->set_algorithm();
  net->remove_inconsistency();
  GNU_gama::local::Acord2 acord2(net->PD, net->OD);
  acord2.execute();
  return net;
}

int main(int argc, char** argv) {
  if (argc < 2) { std::cerr << "usage: drv_localnet file\n"; return 2; }
  std::ifstream fin(argv[1]);
  Tok t(fin);
  std::map<std::string, std::string> nets;
  std::string w;
  while (t.next(w)) {
    if (w == "NET") { std::string id = t.str(); nets[id] = t.str(); continue; }
    if (w != "HIST") Tok::fail("HIST expected, got " + w);
    std::string hid = t.str(), nid = t.str(); int n = t.num();
    std::unique_ptr<LocalNetwork> net;
    std::string loaderr;
    try { net = load(nets[nid]); }
    catch (const GNU_gama::Exception::parser& e) { loaderr = std::string("parser: ") + e.what(); }
    catch (const GNU_gama::Exception::base& e) { loaderr = e.what(); }
    catch (const std::exception& e) { loaderr = e.what(); }
    for (int k = 1; k <= n; k++) {
      std::string op = t.str(), arg;
      if (op != "RMABS" && op != "REFINE") arg = t.str();
      std::cout << "{\"h\":" << jstr(hid) << ",\"k\":" << k << ",\"op\":" << jstr(op) << ",\"arg\":" << jstr(arg);
      if (!net) { std::cout << ",\"exc\":" << jstr("load: " + loaderr) << "}\n"; continue; }
      std::vector<double> ans; bool has = false; std::string exc; int extra = -1;
      try {
        if (op == "Q") {
          has = true;
          if (arg == "np") ans.push_back(net->points_count());
          else if (arg == "nu") ans.push_back(net->unknowns_count());
          else if (arg == "no") ans.push_back(net->observations_count());
          else if (arg == "huge") ans.push_back(net->huge_abs_terms() ? 1 : 0);
          else if (arg == "dof") ans.push_back(net->degrees_of_freedom());
          else if (arg == "pvv") ans.push_back(net->trans_VWV());
          else if (arg == "m0") ans.push_back(net->m_0());
          else if (arg == "cic") ans.push_back(net->conf_int_coef());
          else if (arg == "x") { const auto& x = net->solve(); for (int i = 1; i <= x.dim(); i++) ans.push_back(x(i)); }
          else if (arg == "r") { const auto& r = net->residuals(); for (int i = 1; i <= r.dim(); i++) ans.push_back(r(i)); }
          else if (arg == "sx") { int nu = net->unknowns_count(); net->solve(); for (int i = 1; i <= nu; i++) ans.push_back(net->unknown_stdev(i)); }
          else if (arg == "sl") { int no = net->observations_count(); net->solve(); for (int i = 1; i <= no; i++) ans.push_back(net->stdev_obs(i)); }
          else Tok::fail("unknown query " + arg);
        }
        else if (op == "U") {
          if (arg == "Points") net->update_points(); else if (arg == "Observations") net->update_observations();
          else if (arg == "Residuals") net->update_residuals(); else if (arg == "Adjustment") net->update_adjustment();
          else Tok::fail("unknown stage " + arg);
        }
        else if (op == "ALG") net->set_algorithm(arg);
        else if (op == "M0") { if (arg == "apriori") net->set_m_0_apriori(); else net->set_m_0_aposteriori(); }
        else if (op == "CONF") net->conf_pr(std::stod(arg));
        else if (op == "APR") net->apriori_m_0(std::stod(arg));
        else if (op == "RMABS") { extra = net->huge_abs_terms() ? 1 : 0; net->remove_huge_abs_terms(); }
        else if (op == "REFINE") { extra = net->refine_adjustment() ? 1 : 0; }
        else Tok::fail("unknown operation " + op);
      }
      catch (const GNU_gama::local::Exception& e) { exc = std::string("local: ") + e.what(); }
      catch (const GNU_gama::Exception::matvec& e) { exc = std::string("matvec: ") + e.what(); }
      catch (const GNU_gama::Exception::base& e) { exc = std::string("base: ") + e.what(); }
      catch (const std::exception& e) { exc = std::string("std: ") + e.what(); }
      std::vector<int> fl = GNU_gama::VerifProbe::net_flags(*net);
      std::cout << ",\"flags\":[" << fl[0] << "," << fl[1] << "," << fl[2] << "," << fl[3] << "]";
      std::cout << ",\"did\":" << (extra > 0 ? 1 : 0) << ",\"m0type\":" << jstr(net->m_0_apriori() ? "apriori" : "aposteriori");
      if (!exc.empty()) std::cout << ",\"exc\":" << jstr(exc);
      else if (has) { std::cout << ",\"ans\":["; for (size_t i = 0; i < ans.size(); i++) std::cout << (i ? "," : "") << jnum(ans[i]); std::cout << "]"; }
      std::cout << "}\n";
    }
  }
  return 0;
}
