// Evaluates gama's statistical functions on a grid and logs one ndjson record per
// evaluation (direction B of property C17). Values are logged as doubles and as FixNum
// {i: integer part, f: fraction in 1e-9} for the TLA+ trace specification.
// usage: drv_statan <grid.txt>   lines:  N alpha | S alpha dof | C alpha dof | D x
#include "vh.h"
#include <gnu_gama/statan.h>
using namespace vh;
static std::string fix(double v) {
  if (std::isnan(v) || std::isinf(v) || std::fabs(v) > 2e9) return "{\"bad\":1}";
  double ip = std::floor(v);
  long f = std::lround((v - ip) * 1e9);
  if (f >= 1000000000L) { ip += 1; f -= 1000000000L; }
  return "{\"i\":" + std::to_string((long)ip) + ",\"f\":" + std::to_string(f) + "}";
}
int main(int argc, char** argv) {
  if (argc < 2) Tok::fail("usage: drv_statan grid.txt");
  std::ifstream in(argv[1]);
  Tok t(in);
  std::string w;
  long k = 0;
  while (t.next(w)) {
    k++;
    if (w == "N") { double a = t.dbl(); double v = GNU_gama::Normal(a); std::cout << "{\"e\":\"Normal\",\"k\":" << k << ",\"alpha\":" << jnum(a) << ",\"v\":" << jnum(v) << ",\"fx\":" << fix(v) << "}\n"; }
    else if (w == "S") { double a = t.dbl(); int n = t.num(); double v = GNU_gama::Student(a, n); std::cout << "{\"e\":\"Student\",\"k\":" << k << ",\"alpha\":" << jnum(a) << ",\"dof\":" << n << ",\"v\":" << jnum(v) << ",\"fx\":" << fix(v) << "}\n"; }
    else if (w == "C") { double a = t.dbl(); int n = t.num(); double v = GNU_gama::Chi_square(a, n); std::cout << "{\"e\":\"Chi2\",\"k\":" << k << ",\"alpha\":" << jnum(a) << ",\"dof\":" << n << ",\"v\":" << jnum(v) << ",\"fx\":" << fix(v) << "}\n"; }
    else if (w == "D") { double x = t.dbl(); double D, f; GNU_gama::NormalDistribution(x, D, f); std::cout << "{\"e\":\"NormalCdf\",\"k\":" << k << ",\"x\":" << jnum(x) << ",\"v\":" << jnum(D) << ",\"pdf\":" << jnum(f) << ",\"fx\":" << fix(D) << "}\n"; }
    else if (w == "I") { double a = t.dbl(); double v = GNU_gama::Normal(a); double D, f; GNU_gama::NormalDistribution(v, D, f);
      std::cout << "{\"e\":\"NormalInv\",\"k\":" << k << ",\"alpha\":" << jnum(a) << ",\"v\":" << jnum(v) << ",\"cdf\":" << jnum(D) << ",\"fx\":" << fix(1.0 - D) << "}\n"; }
    else Tok::fail("bad grid token " + w);
  }
  return 0;
}
