// Literal acceptors and angle conversions of gama against spec/Literals.tla / spec/Angles.tla.
// input lines:  L <string with _ for blank>   -> IsFloat IsInteger deg2gon-accepts
//               G <gon value> <prec>          -> gon2deg(gon, 3, prec) and deg2gon of it
#include "vh.h"
#include <gnu_gama/intfloat.h>
#include <gnu_gama/gon2deg.h>
#include <gnu_gama/latlong.h>
using namespace vh;
int main(int argc, char** argv) {
  if (argc < 2) Tok::fail("usage: drv_lit file");
  std::ifstream in(argv[1]);
  std::string line;
  while (std::getline(in, line)) {
    if (line.size() < 2) continue;
    if (line[0] == 'L') {
      std::string s = line.substr(2);
      for (char& c : s) if (c == '_') c = ' ';
      double g = 0;
      bool a = GNU_gama::deg2gon(s, g);
      std::cout << "{\"s\":" << jstr(line.substr(2)) << ",\"f\":" << GNU_gama::IsFloat(s) << ",\"i\":" << GNU_gama::IsInteger(s) << ",\"a\":" << a << "}\n";
    } else if (line[0] == 'T') {
      std::istringstream is(line.substr(2));
      double gon; int prec;
      is >> gon >> prec;
      const double rad = gon * 3.14159265358979323846 / 200;
      std::cout << "{\"gon\":" << jnum(gon) << ",\"prec\":" << prec << ",\"lat\":" << jstr(GNU_gama::latitude(rad, prec)) << ",\"lon\":" << jstr(GNU_gama::longitude(rad, prec)) << "}\n";
    } else if (line[0] == 'G') {
      std::istringstream is(line.substr(2));
      double gon; int prec;
      is >> gon >> prec;
      std::string d = GNU_gama::gon2deg(gon, 3, prec);
      double back = 0;
      bool ok = GNU_gama::deg2gon(d, back);
      std::cout << "{\"gon\":" << jnum(gon) << ",\"prec\":" << prec << ",\"dms\":" << jstr(d) << ",\"ok\":" << ok << ",\"back\":" << jnum(back) << "}\n";
    }
  }
  return 0;
}
