// Algebra checks of matvec against exact data from spec/MatAlgebra.tla.
#include "vh.h"
#include <matvec/symmat.h>
#include <matvec/bandmat.h>
#include <matvec/covmat.h>
#include <matvec/svd.h>
#include <matvec/pinv.h>
#include <map>
using namespace vh;
using namespace GNU_gama;
static long ncase = 0;
static std::map<std::string, long> checks;
static long nfail = 0;
static void fail(const std::string& check, const std::string& msg) {
  nfail++;
  if (nfail <= 60) std::cout << "{\"t\":\"fail\",\"case\":" << ncase << ",\"check\":" << jstr(check) << ",\"msg\":" << jstr(msg) << "}\n";
}
static DMat readm(Tok& t) { int r = t.num(), c = t.num(); DMat M(r, c); for (int i = 1; i <= r; i++) for (int j = 1; j <= c; j++) M(i, j) = t.dbl(); return M; }
static double maxdiff(const DMat& X, const DMat& Y) {
  if (X.rows() != Y.rows() || X.cols() != Y.cols()) return 1e300;
  double d = 0; for (int i = 1; i <= X.rows(); i++) for (int j = 1; j <= X.cols(); j++) d = std::max(d, std::fabs(X(i, j) - Y(i, j))); return d;
}
static void chk(const std::string& name, double d, double tol, const std::string& what) { checks[name]++; if (!(d <= tol)) fail(name, what + " (max difference " + jnum(d) + ")"); }
template <class F> static void expect_throw(const std::string& name, F f) {
  checks[name]++;
  try { f(); fail(name, "non-conforming operands did not raise an exception"); } catch (const Exc&) {} catch (const GNU_gama::Exception::base&) {}
}

int main(int argc, char** argv) {
  if (argc < 2) Tok::fail("usage: drv_algebra file");
  std::ifstream in(argv[1]);
  Tok t(in);
  std::string w;
  for (ncase = 0; t.next(w); ncase++) {
    if (w != "CASE") Tok::fail("CASE expected");
    int r = t.num(), k = t.num(), c = t.num();
    t.expect("A"); DMat A = readm(t);
    t.expect("B"); DMat B = readm(t);
    t.expect("AB"); DMat AB = readm(t);
    t.expect("RANK"); int rank = t.num();
    bool sq = false; long det = 0; DMat ADJ;
    w = t.str();
    if (w == "DET") { sq = true; det = t.num(); t.expect("ADJ"); ADJ = readm(t); w = t.str(); }
    if (w != "END") Tok::fail("END expected");
    try {
      chk("product", maxdiff(A * B, AB), 1e-12, "A*B differs from the exact product");
      DMat At = trans(A), Bt = trans(B);
      chk("transpose_product", maxdiff(DMat(Bt * At), DMat(trans(AB))), 1e-12, "trans(B)*trans(A) != trans(A*B)");
      bool tt = At.rows() == k && At.cols() == r;
      for (int i = 1; tt && i <= r; i++) for (int j = 1; j <= k; j++) if (At(j, i) != A(i, j)) tt = false;
      chk("transpose", tt ? 0 : 1, 0, "trans(A) has wrong elements");
      chk("sum", maxdiff(DMat(DMat(A + A) - A), A), 0, "A + A - A != A");
      chk("scalar", maxdiff(DMat(A * 2.0), DMat(A + A)), 0, "2A != A + A");
      // lazily transposed operands (TransMat / TransVec) against the materialised transposes
      {
        DMat T1 = trans(B) * trans(A);
        chk("transmat_product", maxdiff(T1, DMat(trans(AB))), 1e-12, "trans(B) * trans(A) (two TransMat operands) != trans(A*B)");
        DMat T2 = trans(A) * A;  DMat T2m = At * A;
        chk("transmat_mat", maxdiff(T2, T2m), 1e-12, "trans(A) * A (TransMat x Mat) differs from the materialised product");
        DMat T3 = A * trans(A);  DMat T3m = A * At;
        chk("mat_transmat", maxdiff(T3, T3m), 1e-12, "A * trans(A) (Mat x TransMat) differs from the materialised product");
        // TransMat::operator*(Float) and operator*(Float, TransMat) do not compile when instantiated (mul is a dependent name): not callable
        DMat T6 = trans(A) + trans(A);  DMat T6m = At + At;
        chk("transmat_sum", maxdiff(T6, T6m), 0, "trans(A) + trans(A) differs from the materialised sum");
        DVec vr(r); for (int i = 1; i <= r; i++) vr(i) = i - 2;
        DVec w1 = trans(A) * vr;  DVec w1m = At * vr;
        double dw = 0; for (int i = 1; i <= k; i++) dw = std::max(dw, std::fabs(w1(i) - w1m(i)));
        chk("transmat_vec", dw, 1e-12, "trans(A) * v differs from the materialised product");
        DVec vk(k); for (int i = 1; i <= k; i++) vk(i) = 2 * i - 3;
        DVec w2m = A * vk;
        DVec w2 = trans(vk * trans(A));                       // v' A' = (A v)'
        dw = (w2.dim() == r) ? 0 : 1; for (int i = 1; dw == 0 && i <= r; i++) dw = std::max(dw, std::fabs(w2(i) - w2m(i)));
        chk("vec_transmat", dw, 1e-12, "v * trans(A) differs from trans(A v)");
      }
      // transposed vectors
      {
        DVec vr(r); for (int i = 1; i <= r; i++) vr(i) = 2 - i;
        DVec vk(k); for (int i = 1; i <= k; i++) vk(i) = i + 1;
        double dot = 0; for (int i = 1; i <= r; i++) dot += vr(i) * vr(i);
        chk("transvec_dot", std::fabs(double(trans(vr) * vr) - dot), 1e-12, "trans(v) * v differs from the sum of squares");
        DVec a1 = trans(trans(vr) * A);                                  // v' A   (Mat operand)
        DVec a1m = At * vr;
        double d1 = (a1.dim() == k) ? 0 : 1; for (int i = 1; d1 == 0 && i <= k; i++) d1 = std::max(d1, std::fabs(a1(i) - a1m(i)));
        chk("transvec_mat", d1, 1e-12, "trans(v) * A differs from trans(trans(A) * v)");
        const GNU_gama::MatBase<double, int, Exc>& Ab = A;                // the MatBase overload
        DVec a2 = trans(trans(vr) * Ab);
        double d2 = (a2.dim() == k) ? 0 : 1; for (int i = 1; d2 == 0 && i <= k; i++) d2 = std::max(d2, std::fabs(a2(i) - a1m(i)));
        chk("transvec_matbase", d2, 1e-12, "trans(v) * A (MatBase operand) differs from trans(trans(A) * v)");
        DVec s1 = trans(trans(vk) + trans(vk));
        double d3 = 0; for (int i = 1; i <= k; i++) d3 = std::max(d3, std::fabs(s1(i) - 2 * vk(i)));
        chk("transvec_sum", d3, 0, "trans(v) + trans(v) != 2 v");
      }
      // non-conforming operands
      if (k != r || c != k) {
        if (A.cols() != A.rows() || true) {
          DMat X(r + 1, k);
          expect_throw("nonconforming_sum", [&] { DMat Y = A + X; (void)Y; });
          DMat Z(k + 1, c);
          expect_throw("nonconforming_product", [&] { DMat Y = A * Z; (void)Y; });
          DVec v(k + 1);
          expect_throw("nonconforming_matvec", [&] { DVec y = A * v; (void)y; });
        }
      }
      if (sq) {
        if (det != 0) {
          DMat I = inv(A);
          DMat S(r, r); for (int i = 1; i <= r; i++) for (int j = 1; j <= r; j++) S(i, j) = I(i, j) * double(det);
          chk("inverse", maxdiff(S, ADJ), 1e-9, "inv(A)*det(A) differs from the exact adjugate");
          DMat P = I * A; DMat E(r, r); E.set_identity();
          chk("inverse_identity", maxdiff(P, E), 1e-10, "inv(A)*A != I");
        } else {
          checks["inverse_singular"]++;
          try { DMat I = inv(A); fail("inverse_singular", "inv() of an exactly singular matrix did not raise an exception"); } catch (const Exc&) {}
        }
      }
      // SVD (rows >= cols)
      if (r >= k) {
        SVD<double, int, Exc> svd(A);
        svd.decompose();
        const DMat& U = svd.SVD_U(); const DVec& W = svd.SVD_W(); const DMat& V = svd.SVD_V();
        DMat R(r, k); R.set_zero();
        for (int i = 1; i <= r; i++) for (int j = 1; j <= k; j++) { double s = 0; for (int q = 1; q <= k; q++) s += U(i, q) * W(q) * V(j, q); R(i, j) = s; }
        chk("svd_reconstruct", maxdiff(R, A), 1e-10, "U W V' != A");
        DMat VtV = trans(V) * V; DMat E(k, k); E.set_identity();
        chk("svd_V_orthonormal", maxdiff(VtV, E), 1e-10, "V'V != I");
        int rk = 0; for (int q = 1; q <= k; q++) if (std::fabs(W(q)) > 1e-9) rk++;
        chk("svd_rank", std::abs(rk - rank), 0, "number of non-zero singular values " + std::to_string(rk) + " != exact rank " + std::to_string(rank));
        for (int p = 1; p <= k; p++) for (int q2 = 1; q2 <= k; q2++) {
          if (std::fabs(W(p)) < 1e-9 || std::fabs(W(q2)) < 1e-9) continue;
          double s = 0; for (int i = 1; i <= r; i++) s += U(i, p) * U(i, q2);
          chk("svd_U_orthonormal", std::fabs(s - (p == q2 ? 1 : 0)), 1e-10, "columns of U for non-zero singular values are not orthonormal");
        }
        // Moore-Penrose
        DMat X = pinv(A);
        chk("pinv_AXA", maxdiff(DMat(A * X * A), A), 1e-9, "A X A != A");
        chk("pinv_XAX", maxdiff(DMat(X * A * X), X), 1e-9, "X A X != X");
        DMat AX = A * X, XA = X * A;
        chk("pinv_AX_symmetric", maxdiff(AX, DMat(trans(AX))), 1e-9, "(A X)' != A X");
        chk("pinv_XA_symmetric", maxdiff(XA, DMat(trans(XA))), 1e-9, "(X A)' != X A");
      }
      // scale law (MatAlgebra.tla: Rank(sA) = Rank(A), pinv(sA) = pinv(A)/s, inv(sA) = inv(A)/s) with exact powers of two
      if (r >= k) {
        DMat X0 = pinv(A);
        const double scales[] = {1048576.0, 8.8817841970012523e-16};          // 2^20, 2^-50
        for (double sc : scales) {
          DMat As = A * sc;
          SVD<double, int, Exc> svd(As);
          svd.decompose();
          int rk = 0; for (int q = 1; q <= k; q++) if (!svd.lindep(q)) rk++;
          chk("scaled_svd_rank", std::abs(rk - rank), 0, "rank of " + std::to_string(sc) + "*A by SVD::lindep is " + std::to_string(rk) + ", exact rank " + std::to_string(rank));
          DMat Xs = pinv(As);
          chk("scaled_pinv", maxdiff(DMat(Xs * sc), X0), 1e-9, "pinv(s A) * s != pinv(A) for s = " + std::to_string(sc));
          // Mat::invert(tol) has a documented absolute pivot threshold (default 1000 eps): matrices are scaled within it
          const double sci = sc > 1 ? sc : 9.5367431640625e-07;           // 2^20, 2^-20
          if (sq && det != 0) {
            As = A * sci;
            const double sc = sci;
            DMat Is = inv(As);
            DMat S(r, r); for (int i = 1; i <= r; i++) for (int j = 1; j <= r; j++) S(i, j) = Is(i, j) * sc * double(det);
            chk("scaled_inverse", maxdiff(S, ADJ), 1e-8, "inv(s A) * s * det(A) differs from the exact adjugate for s = " + std::to_string(sc));
          }
        }
      }
      // Cholesky of N = A'A + I in the three symmetric storages
      {
        DMat N = At * A; for (int i = 1; i <= k; i++) N(i, i) += 1;
        DVec y(k); for (int i = 1; i <= k; i++) y(i) = i;
        DVec rhs = N * y;
        GNU_gama::SymMat<double, int, Exc> S(k);
        for (int i = 1; i <= k; i++) for (int j = i; j <= k; j++) S(i, j) = N(i, j);
        S.cholDec(); DVec x1 = rhs; S.solve(x1);
        double d = 0; for (int i = 1; i <= k; i++) d = std::max(d, std::fabs(x1(i) - y(i)));
        chk("chol_symmat", d, 1e-9, "SymMat::cholDec/solve does not solve N x = N y");
        GNU_gama::CovMat<double, int, Exc> C(k, k - 1);
        for (int i = 1; i <= k; i++) for (int j = i; j <= k; j++) C(i, j) = N(i, j);
        C.cholDec(); DVec x2 = rhs; C.solve(x2);
        d = 0; for (int i = 1; i <= k; i++) d = std::max(d, std::fabs(x2(i) - y(i)));
        chk("chol_covmat", d, 1e-9, "CovMat::cholDec/solve does not solve N x = N y");
        GNU_gama::BandMat<double, int, Exc> Bm(k, k - 1);
        for (int i = 1; i <= k; i++) for (int j = i; j <= k; j++) Bm(i, j) = N(i, j);
        Bm.cholDec(); DVec x3 = rhs; Bm.solve(x3);
        d = 0; for (int i = 1; i <= k; i++) d = std::max(d, std::fabs(x3(i) - y(i)));
        chk("chol_bandmat", d, 1e-9, "BandMat::cholDec/solve does not solve N x = N y");
      }
    } catch (const Exc& e) { fail("exception", std::string("unexpected matvec exception: ") + e.what()); }
  }
  std::cout << "{\"t\":\"summary\",\"cases\":" << ncase << ",\"fails\":" << nfail << ",\"checks\":{";
  bool first = true; for (auto& kv : checks) { std::cout << (first ? "" : ",") << jstr(kv.first) << ":" << kv.second; first = false; }
  std::cout << "}}\n";
  return 0;
}
