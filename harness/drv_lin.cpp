// Dumps the linearised observation equations of gama-local inputs exactly as
// LocalNetwork::project_equations(A, b, w) produces them (17 significant digits), with the map
// unknown index -> (point, X|Y|Z|R) and the description of every observation row.
// usage: drv_lin file.gkf ...   -> one JSON object per file on stdout
#include "vh.h"
#include <gnu_gama/local/network.h>
#include <gnu_gama/local/language.h>
#include <gnu_gama/local/acord/acord2.h>
#include <gnu_gama/xml/gkfparser.h>
using namespace GNU_gama::local;
using namespace vh;

int main(int argc, char** argv) {
  set_gama_language(en);
  for (int f = 1; f < argc; f++) {
    std::cout << "{\"file\":" << jstr(argv[f]);
    try {
      LocalNetwork net;
      net.set_algorithm("gso");
      {
        GKFparser gkf(net);
        std::ifstream in(argv[f]);
        std::string text((std::istreambuf_iterator<char>(in)), std::istreambuf_iterator<char>());
        gkf.xml_parse(text.c_str(), (int)text.size(), 1);
      }
      net.remove_inconsistency();
      Acord2 acord2(net.PD, net.OD);
      acord2.execute();
      Mat A; Vec b, w;
      net.project_equations(A, b, w);
      std::cout << ",\"y_sign\":" << net.y_sign() << ",\"unknowns\":[";
      for (int i = 1; i <= net.unknowns_count(); i++)
        std::cout << (i > 1 ? "," : "") << "[" << jstr(std::string(1, net.unknown_type(i))) << "," << jstr(net.unknown_pointid(i).str()) << "]";
      std::cout << "],\"rows\":[";
      DisplayObservationVisitor info(&net);
      for (int r = 1; r <= A.rows(); r++) {
        Observation* o = net.ptr_obs(r);
        o->accept(&info);
        std::cout << (r > 1 ? "," : "") << "{\"t\":" << jstr(info.xml_name) << ",\"from\":" << jstr(info.str_from) << ",\"to\":" << jstr(info.str_to)
                  << ",\"bs\":" << jstr(info.str_bs) << ",\"fs\":" << jstr(info.str_fs) << ",\"b\":" << jnum(b(r)) << ",\"w\":" << jnum(w(r)) << ",\"a\":[";
        bool first = true;
        for (int c = 1; c <= A.cols(); c++)
          if (A(r, c) != 0) { std::cout << (first ? "" : ",") << "[" << c << "," << jnum(A(r, c)) << "]"; first = false; }
        std::cout << "]}";
      }
      std::cout << "]";
    } catch (const GNU_gama::Exception::parser& e) {
      std::cout << ",\"error\":" << jstr(std::string("parser: ") + e.what());
    } catch (const GNU_gama::Exception::base& e) {
      std::cout << ",\"error\":" << jstr(e.what());
    } catch (const std::exception& e) {
      std::cout << ",\"error\":" << jstr(e.what());
    }
    std::cout << "}\n";
  }
  return 0;
}
