// One-step conformance of GNU_gama::MoveToFront<3,int,int> with spec/MoveToFront.tla:
// for every transition of the model's state graph (emitted by MoveToFrontEmit.tla) the real
// object is put into the source state through the probe, get(k) is called, and the returned
// buffer, the hit flag and the complete target state are compared with the model's.
// input line: nk keys.. nb bufs.. k nk2 keys2.. bufs2(nb).. buf hit
#include "vh.h"
#include <gnu_gama/movetofront.h>
using namespace vh;
using GNU_gama::VerifProbe;

int main(int argc, char** argv) {
  if (argc < 2) Tok::fail("usage: drv_mtf transitions.txt");
  std::ifstream f(argv[1]);
  Tok t(f);
  std::string w;
  long n = 0, bad = 0;
  while (t.next(w)) {
    int nk = atoi(w.c_str());
    std::vector<int> keys(nk); for (int& v : keys) v = t.num();
    int nb = t.num();
    std::vector<int> bufs(nb); for (int& v : bufs) v = t.num();
    int k = t.num();
    int nk2 = t.num();
    std::vector<int> keys2(nk2); for (int& v : keys2) v = t.num();
    std::vector<int> bufs2(nb); for (int& v : bufs2) v = t.num();
    int buf = t.num(), hit = t.num();
    GNU_gama::MoveToFront<3, int, int> m(0);
    VerifProbe::mtf_set(m, keys, bufs);
    std::pair<int, bool> r = m.get(k);
    n++;
    if (r.first != buf || (int)r.second != hit || VerifProbe::mtf_keys(m) != keys2 || VerifProbe::mtf_bufs(m) != bufs2) {
      bad++;
      if (bad <= 10)
        std::cout << "MISMATCH keys=" << jints(keys) << " bufs=" << jints(bufs) << " get(" << k << "): code returns (" << r.first << "," << r.second << ") keys " << jints(VerifProbe::mtf_keys(m)) << " bufs " << jints(VerifProbe::mtf_bufs(m))
                  << "; model: (" << buf << "," << hit << ") keys " << jints(keys2) << " bufs " << jints(bufs2) << "\n";
    }
  }
  std::cout << "transitions " << n << " mismatches " << bad << "\n";
  return bad ? 1 : 0;
}
