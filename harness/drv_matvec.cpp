// Replays behaviours of spec/MatVecObjects.tla on the real containers (Vec, Mat, SymMat, CovMat)
// and compares dimensions and elements of all three objects with the model after every step.
// input: K <kind> / steps "construct o r c s", "reset o r c s", "assign o p", "copymove o p",
//        "move o p", "selfassign o", "set o k val" / each step followed by the expected state
//        "X r c n v1..vn" for the three objects / END
#include "vh.h"
#include <matvec/symmat.h>
#include <matvec/covmat.h>
using namespace vh;
typedef GNU_gama::SymMat<double, int, Exc> DSym;
typedef GNU_gama::CovMat<double, int, Exc> DCov;

template <class T> struct Ops;
template <> struct Ops<DVec> {
  static DVec make(int r, int c) { return DVec(r * c); }
  static void reset(DVec& o, int r, int c) { o.reset(r * c); }
  static int n(const DVec& o) { return o.dim(); }
  static double& at(DVec& o, int k) { return o(k); }
  static bool dims(const DVec& o, int r, int c) { return o.dim() == r * c; }
};
template <> struct Ops<DMat> {
  static DMat make(int r, int c) { return DMat(r, c); }
  static void reset(DMat& o, int r, int c) { o.reset(r, c); }
  static int n(const DMat& o) { return o.rows() * o.cols(); }
  static double& at(DMat& o, int k) { int c = o.cols(); return o((k - 1) / c + 1, (k - 1) % c + 1); }
  static bool dims(const DMat& o, int r, int c) { return (o.rows() == r && o.cols() == c) || (r * c == 0 && o.rows() * o.cols() == 0); }
};

template <class T> long run_kind(Tok& t, const std::string& kind, long& steps) {
  long bad = 0;
  std::string w;
  T o[4];
  long hid = 0;
  for (;;) {
    w = t.str();
    if (w == "ENDK") break;
    if (w == "H") { hid = t.num(); for (int i = 1; i <= 3; i++) o[i] = T(); continue; }
    std::string desc = w;
    if (w == "construct" || w == "reset") {
      int i = t.num(), r = t.num(), c = t.num(), s = t.num();
      if (w == "construct") o[i] = Ops<T>::make(r, c); else Ops<T>::reset(o[i], r, c);
      for (int k = 1; k <= r * c; k++) Ops<T>::at(o[i], k) = s * 10 + k;
    } else if (w == "assign") { int i = t.num(), p = t.num(); o[i] = o[p]; }
    else if (w == "copymove") { int i = t.num(), p = t.num(); T tmp(o[p]); o[i] = std::move(tmp); }
    else if (w == "move") { int i = t.num(), p = t.num(); o[i] = std::move(o[p]); }
    else if (w == "selfassign") { int i = t.num(); T& ref = o[i]; o[i] = ref; }
    else if (w == "set") { int i = t.num(), k = t.num(); double v = t.dbl(); Ops<T>::at(o[i], k) = v; }
    else Tok::fail("drv_matvec: bad step " + w);
    steps++;
    for (int i = 1; i <= 3; i++) {
      t.expect("X");
      int r = t.num(), c = t.num(), n = t.num();
      std::vector<double> v(n);
      for (auto& x : v) x = t.dbl();
      if (r < 0) continue;                 // unspecified state of a moved-from object
      bool ok = Ops<T>::dims(o[i], r, c) && Ops<T>::n(o[i]) == n;
      if (ok) for (int k = 1; k <= n; k++) if (Ops<T>::at(o[i], k) != v[k - 1]) ok = false;
      if (!ok) {
        bad++;
        if (bad <= 20) {
          std::cout << "{\"t\":\"mismatch\",\"kind\":" << jstr(kind) << ",\"hist\":" << hid << ",\"after\":" << jstr(desc) << ",\"object\":" << i << ",\"expected_n\":" << n << ",\"got_n\":" << Ops<T>::n(o[i]) << ",\"got\":[";
          for (int k = 1; k <= Ops<T>::n(o[i]) && k <= 8; k++) std::cout << (k > 1 ? "," : "") << jnum(Ops<T>::at(o[i], k));
          std::cout << "]}\n";
        }
      }
    }
  }
  return bad;
}

int main(int argc, char** argv) {
  if (argc < 2) Tok::fail("usage: drv_matvec file");
  std::ifstream in(argv[1]);
  Tok t(in);
  std::string w;
  long bad = 0, steps = 0;
  while (t.next(w)) {
    if (w != "K") Tok::fail("K expected");
    std::string kind = t.str();
    if (kind == "vec") bad += run_kind<DVec>(t, kind, steps);
    else if (kind == "mat") bad += run_kind<DMat>(t, kind, steps);
    else Tok::fail("kind " + kind);
  }
  std::cout << "{\"t\":\"summary\",\"steps\":" << steps << ",\"mismatches\":" << bad << "}\n";
  return 0;
}
