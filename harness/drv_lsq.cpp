// Direction A replay of TLC-generated least-squares cases (spec/LsqCases.tla) on the real
// solvers. For every case and every entry point the answers of the implementation are
// checked against the exact certificate that came out of TLC (adjugate/determinant of the
// covariance blocks, rank, integer null-space basis, admissibility of the subset).
// The only arithmetic done here is dot products on the returned doubles.
//
// usage: drv_lsq <cases.txt> [maxfail]
// output: ndjson; {"t":"fail",...} per failed check, {"t":"sample",...}, {"t":"summary",...}
#include "vh.h"
#include <map>
#include <set>

using namespace vh;

static std::map<std::string, long> nchecks, nfails;
static long failprinted = 0, maxfail = 300;
static const double TOL = 1e-8;

static void fail(const Problem& p, const std::string& path, const std::string& check, double lhs, double rhs, const std::string& extra = "") {
  nfails[check + "|" + path]++;
  if (failprinted++ < maxfail)
    std::cout << "{\"t\":\"fail\",\"case\":" << jstr(p.id) << ",\"path\":" << jstr(path) << ",\"check\":" << jstr(check)
              << ",\"lhs\":" << jnum(lhs) << ",\"rhs\":" << jnum(rhs) << ",\"extra\":" << jstr(extra) << "}\n";
}
static bool chk(const Problem& p, const std::string& path, const std::string& check, double lhs, double rhs, double scale, const std::string& extra = "") {
  nchecks[check]++;
  if (std::isnan(lhs) || std::isinf(lhs) || std::fabs(lhs - rhs) > TOL * std::max(1.0, scale)) { fail(p, path, check, lhs, rhs, extra); return false; }
  return true;
}

struct Answers {
  bool ok = false; std::string exc;
  int defect = -1; double sumsq = 0;
  std::vector<double> x, r, Q, H, Q0; std::vector<int> lindep;
  bool homogenised_r = false, homogenised_H = false;
};

// weights: P = blockdiag(W_k/det_k); y = P v. A block with det = 0 carries no adjugate (wide band
// blocks): inv(C) v is then obtained with a dense Cholesky factor of the exact C (checked: L L' = C)
static void chol_solve(const Block& bl, const double* v, double* y) {
  const int d = bl.dim;
  std::vector<double> L(d * d, 0.0), t(d);
  for (int i = 0; i < d; i++)
    for (int j = 0; j <= i; j++) {
      double s = bl.C[i * d + j];
      for (int k = 0; k < j; k++) s -= L[i * d + k] * L[j * d + k];
      L[i * d + j] = (i == j) ? std::sqrt(s) : s / L[j * d + j];
    }
  for (int i = 0; i < d; i++) for (int j = 0; j <= i; j++) {
    double s = 0; for (int k = 0; k <= j; k++) s += L[i * d + k] * L[j * d + k];
    if (std::fabs(s - bl.C[i * d + j]) > 1e-9) Tok::fail("harness Cholesky does not reproduce C");
  }
  for (int i = 0; i < d; i++) { double s = v[i]; for (int k = 0; k < i; k++) s -= L[i * d + k] * t[k]; t[i] = s / L[i * d + i]; }
  for (int i = d - 1; i >= 0; i--) { double s = t[i]; for (int k = i + 1; k < d; k++) s -= L[k * d + i] * y[k]; y[i] = s / L[i * d + i]; }
}
static std::vector<double> applyP(const Problem& p, const std::vector<double>& v) {
  std::vector<double> y(p.m, 0.0);
  int o = 0;
  for (const Block& bl : p.blocks) {
    if (bl.det == 0) chol_solve(bl, &v[o], &y[o]);
    else
    for (int i = 0; i < bl.dim; i++) {
      double s = 0;
      for (int j = 0; j < bl.dim; j++) s += bl.W[i * bl.dim + j] * v[o + j];
      y[o + i] = s / double(bl.det);
    }
    o += bl.dim;
  }
  return y;
}

// textbook dense Cholesky of the (exact integer) covariance: C = L L'; verified by L L' = C
static std::vector<double> cholL(const Problem& p) {
  std::vector<double> L(p.m * p.m, 0.0);
  int o = 0;
  for (const Block& bl : p.blocks) {
    const int d = bl.dim;
    for (int i = 0; i < d; i++)
      for (int j = 0; j <= i; j++) {
        double s = bl.C[i * d + j];
        for (int k = 0; k < j; k++) s -= L[(o + i) * p.m + o + k] * L[(o + j) * p.m + o + k];
        L[(o + i) * p.m + o + j] = (i == j) ? std::sqrt(s) : s / L[(o + j) * p.m + o + j];
      }
    o += d;
  }
  return L;
}

template <class Obj>
static void query_all(const Problem& p, Obj& s, Answers& a, bool adjfacade) {
  (void)adjfacade;
  const int n = p.n, m = p.m;
  const auto& x = s.unknowns();
  a.x.resize(n); for (int i = 1; i <= n; i++) a.x[i - 1] = x(i);
  const auto& r = s.residuals();
  a.r.resize(m); for (int i = 1; i <= m; i++) a.r[i - 1] = r(i);
  a.sumsq = s.sum_of_squares();
  a.defect = s.defect();
  a.Q.resize(n * n); a.Q0.resize(n * n);
  for (int i = 1; i <= n; i++) for (int j = 1; j <= n; j++) a.Q[(i - 1) * n + j - 1] = s.q_xx(i, j);
  for (int i = 1; i <= n; i++) for (int j = 1; j <= n; j++) a.Q0[(i - 1) * n + j - 1] = s.q0_xx(i, j);
  a.H.resize(m * m);
  for (int i = 1; i <= m; i++) for (int j = 1; j <= m; j++) a.H[(i - 1) * m + j - 1] = s.q_bb(i, j);
  a.lindep.clear();
  for (int i = 1; i <= n; i++) if (s.lindep(i)) a.lindep.push_back(i);
}

static long det_small(std::vector<std::vector<long> > M) {   // exact integer determinant, d <= 3
  size_t d = M.size();
  if (d == 0) return 1;
  if (d == 1) return M[0][0];
  if (d == 2) return M[0][0] * M[1][1] - M[0][1] * M[1][0];
  if (d == 3) return M[0][0] * (M[1][1] * M[2][2] - M[1][2] * M[2][1]) - M[0][1] * (M[1][0] * M[2][2] - M[1][2] * M[2][0]) + M[0][2] * (M[1][0] * M[2][1] - M[1][1] * M[2][0]);
  Tok::fail("det_small: dimension > 3");
  return 0;
}

static void verify(const Problem& p, const std::string& path, const Answers& a) {
  const int n = p.n, m = p.m, d = p.defect();
  std::vector<int> S = p.S;
  if (p.all) { S.clear(); for (int i = 1; i <= n; i++) S.push_back(i); }
  // --- C01
  chk(p, path, "C01:defect", a.defect, d, 1);
  std::vector<double> v(m);
  double xs = 1;
  for (double t : a.x) xs = std::max(xs, std::fabs(t));
  for (int i = 1; i <= m; i++) { double s = -p.b[i - 1]; for (int j = 1; j <= n; j++) s += p.a(i, j) * a.x[j - 1]; v[i - 1] = s; }
  std::vector<double> Pv = applyP(p, v);
  for (int j = 1; j <= n; j++) { double s = 0; for (int i = 1; i <= m; i++) s += p.a(i, j) * Pv[i - 1]; chk(p, path, "C01:normal", s, 0, 10 * xs); }
  for (const auto& g : p.G) { double s = 0, gs = 1; for (int i : S) { s += g[i - 1] * a.x[i - 1]; gs = std::max(gs, (double)std::labs(g[i - 1])); } chk(p, path, "C01:minnorm", s, 0, xs * gs); }
  double vPv = 0; for (int i = 0; i < m; i++) vPv += v[i] * Pv[i];
  chk(p, path, "C01:sumsq", a.sumsq, vPv, vPv);
  if (a.homogenised_r) { double rr = 0; for (double t : a.r) rr += t * t; chk(p, path, "C01:resid", rr, vPv, vPv); }
  else for (int i = 0; i < m; i++) chk(p, path, "C01:resid", a.r[i], v[i], xs);
  // --- C03
  std::vector<double> N(n * n, 0.0);
  {  // N = A' P A from exact data
    for (int j = 1; j <= n; j++) {
      std::vector<double> col(m); for (int i = 1; i <= m; i++) col[i - 1] = p.a(i, j);
      std::vector<double> Pc = applyP(p, col);
      for (int k = 1; k <= n; k++) { double s = 0; for (int i = 1; i <= m; i++) s += p.a(i, k) * Pc[i - 1]; N[(k - 1) * n + j - 1] = s; }
    }
  }
  double ns = 1, qs = 1;
  for (double t : N) ns = std::max(ns, std::fabs(t));
  for (double t : a.Q) qs = std::max(qs, std::fabs(t));
  auto mul = [n](const std::vector<double>& X, const std::vector<double>& Y) { std::vector<double> Z(n * n, 0.0); for (int i = 0; i < n; i++) for (int k = 0; k < n; k++) { double t = X[i * n + k]; if (t != 0) for (int j = 0; j < n; j++) Z[i * n + j] += t * Y[k * n + j]; } return Z; };
  for (int i = 0; i < n; i++) for (int j = i + 1; j < n; j++) chk(p, path, "C03:sym", a.Q[i * n + j], a.Q[j * n + i], qs);
  std::vector<double> NQ = mul(N, a.Q), NQN = mul(NQ, N), QNQ = mul(a.Q, NQ);
  for (int i = 0; i < n * n; i++) chk(p, path, "C03:NQN", NQN[i], N[i], ns * ns * qs);
  for (int i = 0; i < n * n; i++) chk(p, path, "C03:QNQ", QNQ[i], a.Q[i], qs * qs * ns);
  for (const auto& g : p.G) for (int j = 0; j < n; j++) { double s = 0, gs = 1; for (int i : S) { s += g[i - 1] * a.Q[(i - 1) * n + j]; gs = std::max(gs, (double)std::labs(g[i - 1])); } chk(p, path, "C03:regularisation", s, 0, qs * gs); }
  if (path == "env") {   // q0_xx: a symmetric generalised inverse belonging to the particular solution
    std::vector<double> NQ0 = mul(N, a.Q0), NQ0N = mul(NQ0, N);
    double q0s = 1; for (double t : a.Q0) q0s = std::max(q0s, std::fabs(t));
    for (int i = 0; i < n * n; i++) chk(p, path, "C03:q0_NQN", NQ0N[i], N[i], ns * ns * q0s);
    for (int i = 0; i < n; i++) for (int j = i + 1; j < n; j++) chk(p, path, "C03:q0_sym", a.Q0[i * n + j], a.Q0[j * n + i], q0s);
  }
  // observations: A Q A'
  std::vector<double> AQA(m * m, 0.0);
  for (int i = 1; i <= m; i++) for (int j = 1; j <= m; j++) { double s = 0; for (int k = 1; k <= n; k++) for (int l = 1; l <= n; l++) s += p.a(i, k) * a.Q[(k - 1) * n + l - 1] * p.a(j, l); AQA[(i - 1) * m + j - 1] = s; }
  double as = 1; for (double t : AQA) as = std::max(as, std::fabs(t));
  if (a.homogenised_H) {
    std::vector<double> L = cholL(p);
    // L H L' = A Q A'
    for (int i = 0; i < m; i++) for (int j = 0; j < m; j++) {
      double s = 0;
      for (int k = 0; k <= i; k++) for (int l = 0; l <= j; l++) s += L[i * m + k] * a.H[k * m + l] * L[j * m + l];
      chk(p, path, "C03:qbb", s, AQA[i * m + j], as);
    }
    double tr = 0;
    for (int i = 0; i < m; i++) { double h = a.H[i * m + i]; tr += 1 - h; nchecks["C03:projector"]++; if (!(h >= -TOL && h <= 1 + TOL)) fail(p, path, "C03:projector", h, 0.5); }
    chk(p, path, "C03:redundancy", tr, m - n + d, m);
  } else {
    for (int i = 0; i < m * m; i++) chk(p, path, "C03:qbb", a.H[i], AQA[i], as);
  }
  // --- C20: flagged unknowns are truly dependent
  if (path.find("adj-") != 0) {
    nchecks["C20:lindep"]++;
    bool good = (int)a.lindep.size() == d;
    if (good && d > 0 && d <= 3) {
      std::vector<std::vector<long> > GF(d, std::vector<long>(d));
      for (int k = 0; k < d; k++) for (int c = 0; c < d; c++) GF[k][c] = p.G[k][a.lindep[c] - 1];
      good = det_small(GF) != 0;
    }
    if (!good) fail(p, path, "C20:lindep", a.lindep.size(), d, "flagged=" + jints(a.lindep));
  }
}

static void compare(const Problem& p, const std::string& pa, const Answers& a, const std::string& pb, const Answers& b) {
  const std::string tag = pa + "~" + pb;
  chk(p, tag, "C02:defect", a.defect, b.defect, 1);
  double xs = 1; for (double t : a.x) xs = std::max(xs, std::fabs(t));
  for (size_t i = 0; i < a.x.size(); i++) chk(p, tag, "C02:x", a.x[i], b.x[i], xs);
  chk(p, tag, "C02:sumsq", a.sumsq, b.sumsq, a.sumsq);
  if (a.homogenised_r == b.homogenised_r) for (size_t i = 0; i < a.r.size(); i++) chk(p, tag, "C02:r", a.r[i], b.r[i], xs);
  double qs = 1; for (double t : a.Q) qs = std::max(qs, std::fabs(t));
  for (size_t i = 0; i < a.Q.size(); i++) chk(p, tag, "C02:qxx", a.Q[i], b.Q[i], qs);
  if (a.homogenised_H == b.homogenised_H) for (size_t i = 0; i < a.H.size(); i++) chk(p, tag, "C02:qbb", a.H[i], b.H[i], 1);
}

static void query_adj(const Problem& p, GNU_gama::Adj& adj, Answers& a) {
  const auto& x = adj.x();
  a.x.resize(p.n); for (int i = 1; i <= p.n; i++) a.x[i - 1] = x(i);
  const auto& r = adj.r();
  a.r.resize(p.m); for (int i = 1; i <= p.m; i++) a.r[i - 1] = r(i);
  a.sumsq = adj.rtr(); a.defect = adj.defect();
  a.Q.resize(p.n * p.n); a.Q0 = a.Q;
  for (int i = 1; i <= p.n; i++) for (int j = 1; j <= p.n; j++) a.Q[(i - 1) * p.n + j - 1] = adj.q_xx(i, j);
  a.H.resize(p.m * p.m);
  for (int i = 1; i <= p.m; i++) for (int j = 1; j <= p.m; j++) a.H[(i - 1) * p.m + j - 1] = adj.q_bb(i, j);
}
// C04 on the general class Adj (gama-g3): answers of an object with a history equal those of a fresh object
static void compare_hist(const Problem& p, const std::string& tag, const Answers& h, const Answers& fresh) {
  chk(p, tag, "C04:adjhist:defect", h.defect, fresh.defect, 1);
  double xs = 1; for (double t : fresh.x) xs = std::max(xs, std::fabs(t));
  for (size_t i = 0; i < fresh.x.size(); i++) chk(p, tag, "C04:adjhist:x", h.x[i], fresh.x[i], xs);
  chk(p, tag, "C04:adjhist:sumsq", h.sumsq, fresh.sumsq, fresh.sumsq);
  for (size_t i = 0; i < fresh.r.size(); i++) chk(p, tag, "C04:adjhist:r", h.r[i], fresh.r[i], xs);
  double qs = 1; for (double t : fresh.Q) qs = std::max(qs, std::fabs(t));
  for (size_t i = 0; i < fresh.Q.size(); i++) chk(p, tag, "C04:adjhist:qxx", h.Q[i], fresh.Q[i], qs);
  for (size_t i = 0; i < fresh.H.size(); i++) chk(p, tag, "C04:adjhist:qbb", h.H[i], fresh.H[i], 1);
}

int main(int argc, char** argv) {
  if (argc < 2) Tok::fail("usage: drv_lsq cases.txt [maxfail]");
  if (argc > 2) maxfail = atol(argv[2]);
  std::ifstream f(argv[1]);
  if (!f) Tok::fail("cannot open cases");
  Tok t(f);
  std::string w;
  long ncases = 0, nsingular = 0, nsubset = 0, nbad = 0, samples = 0;
  const char* raw[] = {"env", "chol", "gso", "svd"};
  while (t.next(w)) {
    if (w != "PROB") Tok::fail("PROB expected, got " + w);
    Problem p;
    read_problem(t, p);
    ncases++;
    if (p.defect() > 0) nsingular++;
    if (!p.all) nsubset++;
    std::map<std::string, Answers> ans;
    for (const char* alg : raw) {
      // (1) the AdjBase solvers as LocalNetwork drives them
      {
        Answers a; a.homogenised_H = true; a.homogenised_r = std::string(alg) != "env";
        try {
          Solver s; s.create(alg); s.load(p); s.minx(p.S, p.all);
          query_all(p, *s.s, a, false);
          a.ok = true;
        } catch (const Exc& e) { a.exc = e.what(); }
        catch (const GNU_gama::Exception::base& e) { a.exc = std::string("other:") + e.what(); }
        ans[alg] = a;
      }
      // (2) the general adjustment class used by gama-g3
      {
        Answers a; a.homogenised_H = false; a.homogenised_r = false;
        try {
          GNU_gama::Adj adj;
          adj.set_algorithm(adj_alg(alg));
          adj.set(make_input(p, true));      // Adj owns the input data
          const auto& x = adj.x();
          a.x.resize(p.n); for (int i = 1; i <= p.n; i++) a.x[i - 1] = x(i);
          const auto& r = adj.r();
          a.r.resize(p.m); for (int i = 1; i <= p.m; i++) a.r[i - 1] = r(i);
          a.sumsq = adj.rtr(); a.defect = adj.defect();
          a.Q.resize(p.n * p.n); a.Q0 = a.Q;
          for (int i = 1; i <= p.n; i++) for (int j = 1; j <= p.n; j++) a.Q[(i - 1) * p.n + j - 1] = adj.q_xx(i, j);
          a.H.resize(p.m * p.m);
          for (int i = 1; i <= p.m; i++) for (int j = 1; j <= p.m; j++) a.H[(i - 1) * p.m + j - 1] = adj.q_bb(i, j);
          a.ok = true;
        } catch (const Exc& e) { a.exc = e.what(); }
        catch (const GNU_gama::Exception::base& e) { a.exc = std::string("other:") + e.what(); }
        ans[std::string("adj-") + alg] = a;
      }
    }
    // (3) one Adj object with a history: solve with a1, switch to a2 (or set the same input again), ask everything;
    //     the law of SolverAPI.tla (answers = answers of a fresh object) on the facade gama-g3 uses
    if (p.adm && getenv("VH_ADJ_HISTORIES")) {
      for (const char* a1 : raw) for (const char* a2 : raw) {
        const Answers& fresh = ans[std::string("adj-") + a2];
        if (!fresh.ok || !ans[std::string("adj-") + a1].ok) continue;
        for (int variant = 0; variant < (std::string(a1) == a2 ? 3 : 1); variant++) {
          std::string tag = std::string("adj-") + a1 + ">" + a2 + (variant == 1 ? "|reset-input" : variant == 2 ? "|query-order" : "");
          Answers h;
          try {
            GNU_gama::Adj adj;
            adj.set_algorithm(adj_alg(a1));
            adj.set(make_input(p, true));
            if (variant == 2) { (void)adj.q_bb(p.m, 1); (void)adj.q_xx(1, p.n); (void)adj.rtr(); }
            else { (void)adj.x(); (void)adj.q_bb(1, p.m); }
            if (variant == 1) adj.set(make_input(p, true));
            else adj.set_algorithm(adj_alg(a2));
            query_adj(p, adj, h);
            h.ok = true;
          } catch (const Exc& e) { h.exc = e.what(); }
          catch (const GNU_gama::Exception::base& e) { h.exc = std::string("other:") + e.what(); }
          nchecks["C04:adjhist:answered"]++;
          if (!h.ok) { fail(p, tag, "C04:adjhist:answered", 0, 1, h.exc); continue; }
          compare_hist(p, tag, h, fresh);
        }
      }
    }
    if (getenv("VH_DUMP"))
      for (auto& kv : ans) {
        const Answers& a = kv.second;
        std::cout << "{\"t\":\"dump\",\"case\":" << jstr(p.id) << ",\"path\":" << jstr(kv.first) << ",\"ok\":" << a.ok << ",\"exc\":" << jstr(a.exc) << ",\"defect\":" << a.defect << ",\"sumsq\":" << jnum(a.sumsq);
        auto dv = [](const char* nm, const std::vector<double>& v) { std::cout << ",\"" << nm << "\":["; for (size_t i = 0; i < v.size(); i++) std::cout << (i ? "," : "") << jnum(v[i]); std::cout << "]"; };
        dv("x", a.x); dv("r", a.r); dv("Q", a.Q); dv("Q0", a.Q0); dv("H", a.H);
        std::cout << ",\"lindep\":" << jints(a.lindep) << "}\n";
      }
    if (p.adm) {
      for (auto& kv : ans) {
        nchecks["C01:answered"]++;
        if (!kv.second.ok) { fail(p, kv.first, "C01:answered", 0, 1, kv.second.exc); continue; }
        verify(p, kv.first, kv.second);
      }
      const char* pairs[][2] = {{"env", "chol"}, {"env", "gso"}, {"env", "svd"}, {"chol", "gso"}, {"chol", "svd"}, {"gso", "svd"},
                                {"adj-env", "adj-chol"}, {"adj-env", "adj-gso"}, {"adj-env", "adj-svd"}, {"env", "adj-env"}};
      for (auto& pr : pairs) if (ans[pr[0]].ok && ans[pr[1]].ok) compare(p, pr[0], ans[pr[0]], pr[1], ans[pr[1]]);
    } else {
      // the subset does not resolve the defect: no algorithm may report an adjustment
      nbad++;
      for (auto& kv : ans) {
        nchecks["C20:refused"]++;
        if (kv.second.ok) fail(p, kv.first, "C20:refused", 1, 0, "solver answered although the regularisation subset does not resolve the defect");
      }
    }
    if (samples < 4 && p.defect() > 0 && !p.all && p.adm) {
      samples++;
      const Answers& a = ans["env"];
      std::cout << "{\"t\":\"sample\",\"case\":" << jstr(p.id) << ",\"n\":" << p.n << ",\"m\":" << p.m << ",\"defect\":" << p.defect() << ",\"S\":" << jints(p.S)
                << ",\"x_env\":[";
      for (size_t i = 0; i < a.x.size(); i++) std::cout << (i ? "," : "") << jnum(a.x[i]);
      std::cout << "],\"sumsq\":" << jnum(a.sumsq) << "}\n";
    }
  }
  std::cout << "{\"t\":\"summary\",\"cases\":" << ncases << ",\"singular\":" << nsingular << ",\"subset\":" << nsubset << ",\"inadmissible\":" << nbad << ",\"checks\":{";
  bool first = true;
  for (auto& kv : nchecks) { std::cout << (first ? "" : ",") << jstr(kv.first) << ":" << kv.second; first = false; }
  std::cout << "},\"fails\":{";
  first = true;
  for (auto& kv : nfails) { std::cout << (first ? "" : ",") << jstr(kv.first) << ":" << kv.second; first = false; }
  std::cout << "}}\n";
  return 0;
}
