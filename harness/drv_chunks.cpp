// Chunked delivery to GKFparser (property C11): a document split into two chunks at every byte position (and into single bytes)
// must be parsed exactly as the whole document: same verdict, same error line, same numbers of points and clusters.
// usage: drv_chunks file ...   -> one JSON record per file
#include "vh.h"
#include <gnu_gama/xml/gkfparser.h>
#include <gnu_gama/local/network.h>
#include <gnu_gama/local/language.h>
using namespace vh;
using GNU_gama::local::LocalNetwork;
struct Outcome { bool ok; int line; std::string msg; size_t points, clusters;
  bool operator==(const Outcome& o) const { return ok == o.ok && line == o.line && msg == o.msg && points == o.points && clusters == o.clusters; } };
static Outcome parse(const std::string& text, const std::vector<size_t>& cuts) {
  Outcome r{true, 0, "", 0, 0};
  LocalNetwork net;
  try {
    GNU_gama::local::GKFparser gkf(net);
    size_t a = 0;
    for (size_t c : cuts) { gkf.xml_parse(text.c_str() + a, int(c - a), 0); a = c; }
    gkf.xml_parse(text.c_str() + a, int(text.size() - a), 1);
  }
  catch (const GNU_gama::Exception::parser& e) { r.ok = false; r.line = e.line; r.msg = e.what(); }
  catch (const GNU_gama::Exception::base& e) { r.ok = false; r.line = -1; r.msg = e.what(); }
  catch (const std::exception& e) { r.ok = false; r.line = -2; r.msg = e.what(); }
  r.points = net.PD.size(); r.clusters = net.OD.clusters.size();
  return r;
}
int main(int argc, char** argv) {
  GNU_gama::local::set_gama_language(GNU_gama::local::en);
  for (int f = 1; f < argc; f++) {
    std::ifstream in(argv[f]);
    std::string text((std::istreambuf_iterator<char>(in)), std::istreambuf_iterator<char>());
    Outcome whole = parse(text, {});
    long bad = 0, first = -1; std::string how;
    for (size_t k = 1; k < text.size(); k++) {
      Outcome o = parse(text, {k});
      if (!(o == whole)) { bad++; if (first < 0) { first = (long)k; how = (o.ok ? "accepted" : "refused at line " + std::to_string(o.line) + ": " + o.msg); } }
    }
    std::vector<size_t> all; for (size_t k = 1; k < text.size(); k++) all.push_back(k);
    Outcome bytes = parse(text, all);
    std::cout << "{\"file\":" << jstr(argv[f]) << ",\"size\":" << text.size() << ",\"whole_ok\":" << (whole.ok ? 1 : 0) << ",\"whole_line\":" << whole.line << ",\"whole_msg\":" << jstr(whole.msg)
              << ",\"points\":" << whole.points << ",\"clusters\":" << whole.clusters << ",\"bad_splits\":" << bad << ",\"first_bad\":" << first << ",\"first_bad_outcome\":" << jstr(how)
              << ",\"bytewise_same\":" << ((bytes == whole) ? 1 : 0) << "}\n";
  }
  return 0;
}
