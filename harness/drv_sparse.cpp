// Sparse kernels against exact dense data from spec/SparseKernels.tla.
#include "vh.h"
#include <gnu_gama/sparse/smatrix.h>
#include <gnu_gama/sparse/smatrix_graph.h>
#include <gnu_gama/sparse/smatrix_ordering.h>
#include <gnu_gama/adj/envelope.h>
#include <gnu_gama/sparse/sbdiagonal.h>
#include <map>
#include <set>
using namespace vh;
using namespace GNU_gama;
static long ncase = 0, nfail = 0;
static std::map<std::string, long> checks;
static void fail(const std::string& check, const std::string& msg) { nfail++; if (nfail <= 60) std::cout << "{\"t\":\"fail\",\"case\":" << ncase << ",\"check\":" << jstr(check) << ",\"msg\":" << jstr(msg) << "}\n"; }
static void ok(const std::string& check, bool cond, const std::string& msg) { checks[check]++; if (!cond) fail(check, msg); }

static std::vector<double> dense_of(const SparseMatrix<>* s) {
  std::vector<double> D(s->rows() * s->columns(), 0.0);
  for (int i = 1; i <= s->rows(); i++) { double* b = s->begin(i); double* e = s->end(i); int* n = s->ibegin(i); for (; b != e; ++b, ++n) D[(i - 1) * s->columns() + (*n - 1)] += *b; }
  return D;
}

// BD <dim> <band> <npacked> / packed B / packed U / END : a symmetric positive definite band block B = U'U given with its exact
// Cholesky factor (spec/BlockDiag.tla). Checked alone, and as the second block behind the previous case's block.
struct BdBlock { int dim = 0, band = 0; std::vector<double> B, U; };
static BdBlock bd_prev;
static void bd_compare(const BlockDiagonal<>& bd, int blk, const BdBlock& c, const std::string& what) {
  const double* g = bd.begin(blk);
  bool good = (bd.end(blk) - bd.begin(blk)) == (long)c.U.size() && bd.dim(blk) == c.dim && bd.width(blk) == c.band;
  std::string msg;
  for (size_t k = 0; good && k < c.U.size(); k++)
    if (!(std::fabs(g[k] - c.U[k]) <= 1e-12)) { good = false; msg = what + ": packed element " + std::to_string(k) + " of the factor is " + std::to_string(g[k]) + ", the exact Cholesky factor has " + std::to_string(c.U[k]); }
  ok("bd_choldec", good, msg.empty() ? what + ": shape of the factor differs" : msg);
}
static void bd_case(Tok& t) {
  BdBlock c; c.dim = t.num(); c.band = t.num(); int np = t.num();
  c.B.resize(np); c.U.resize(np);
  for (auto& v : c.B) v = t.dbl();
  for (auto& v : c.U) v = t.dbl();
  t.expect("END");
  ok("bd_packed_size", np == c.dim * (c.band + 1) - c.band * (c.band + 1) / 2, "packed size of the model differs from dim*(band+1) - band*(band+1)/2");
  { BlockDiagonal<> bd(1, np); bd.add_block(c.dim, c.band, c.B.data());
    ok("bd_build", bd.blocks() == 1 && bd.dim() == c.dim && bd.nonzeroes() == np && std::vector<double>(bd.begin(1), bd.end(1)) == c.B, "add_block does not preserve the entries");
    BlockDiagonal<>* r = bd.replicate();
    ok("bd_replicate", r->blocks() == 1 && r->dim(1) == c.dim && r->width(1) == c.band && std::vector<double>(r->begin(1), r->end(1)) == c.B, "replicate() does not preserve the entries");
    int rc = r->cholDec();
    ok("bd_choldec_rc", rc == 0, "cholDec() reports block " + std::to_string(rc) + " as not positive definite");
    if (rc == 0) bd_compare(*r, 1, c, "single block");
    ok("bd_source_untouched", std::vector<double>(bd.begin(1), bd.end(1)) == c.B, "cholDec() of the replica changed the source");
    delete r; }
  if (bd_prev.dim) {
    BlockDiagonal<> bd(2, bd_prev.B.size() + np); bd.add_block(bd_prev.dim, bd_prev.band, bd_prev.B.data()); bd.add_block(c.dim, c.band, c.B.data());
    ok("bd_build2", bd.blocks() == 2 && bd.dim() == bd_prev.dim + c.dim && bd.nonzeroes() == int(bd_prev.B.size()) + np, "two-block layout: dimensions differ");
    int rc = bd.cholDec();
    ok("bd_choldec_rc", rc == 0, "two blocks: cholDec() reports block " + std::to_string(rc) + " as not positive definite");
    if (rc == 0) { bd_compare(bd, 1, bd_prev, "first of two blocks"); bd_compare(bd, 2, c, "second of two blocks"); }
  }
  bd_prev = c;
}

int main(int argc, char** argv) {
  if (argc < 2) Tok::fail("usage: drv_sparse file");
  std::ifstream in(argv[1]);
  Tok t(in);
  std::string w;
  for (ncase = 0; t.next(w); ncase++) {
    if (w == "BD") { bd_case(t); continue; }
    if (w != "CASE") Tok::fail("CASE expected");
    int m = t.num(), n = t.num(), rank = t.num(), conn = t.num();
    std::vector<double> A(m * n); for (auto& v : A) v = t.dbl();
    std::vector<std::vector<int> > fill(m), adj(n);
    for (int i = 0; i < m; i++) { t.expect("F"); int k = t.num(); fill[i].resize(k); for (auto& v : fill[i]) v = t.num(); }
    for (int j = 0; j < n; j++) { t.expect("G"); int k = t.num(); adj[j].resize(k); for (auto& v : adj[j]) v = t.num(); }
    t.expect("N"); std::vector<double> N(n * n); for (auto& v : N) v = t.dbl();
    t.expect("END");
    int nz = 0; for (auto& f : fill) nz += f.size();
    SparseMatrix<>* sm = new SparseMatrix<>(nz, m, n);
    for (int i = 0; i < m; i++) { sm->new_row(); for (int j : fill[i]) sm->add_element(A[i * n + j - 1], j); }
    ok("build", dense_of(sm) == A && sm->nonzeroes() == nz, "dense projection of the built matrix differs");
    { SparseMatrix<>* tr = sm->transpose(); std::vector<double> D = dense_of(tr); bool good = tr->rows() == n && tr->columns() == m;
      for (int i = 0; good && i < m; i++) for (int j = 0; j < n; j++) if (D[j * m + i] != A[i * n + j]) good = false;
      ok("transpose", good, "transpose() differs from the dense transpose"); delete tr; }
    { SparseMatrix<>* rp = sm->replicate(); ok("replicate", dense_of(rp) == A, "replicate() differs"); delete rp; }
    SparseMatrixGraph<> graph(sm);
    { bool good = graph.nodes() == n;
      for (int j = 1; good && j <= n; j++) { std::set<int> s(graph.begin(j), graph.end(j)); std::set<int> e(adj[j - 1].begin(), adj[j - 1].end()); if (s != e || (int)s.size() != int(graph.end(j) - graph.begin(j))) good = false; }
      ok("graph", good, "adjacency of the column graph differs from the definition"); }
    ok("connected", graph.connected() == bool(conn), std::string("connected() = ") + (graph.connected() ? "true" : "false") + ", reachability says " + (conn ? "true" : "false"));
    ReverseCuthillMcKee<int> ord; ord.reset(&graph);
    { std::set<int> seen; bool good = true;
      for (int i = 1; i <= n; i++) { int p = ord.perm(i); if (p < 1 || p > n || !seen.insert(p).second) good = false; else if (ord.invp(p) != i) good = false; }
      ok("ordering", good, "perm is not a permutation of 1..n with invp(perm(i)) = i"); }
    Envelope<double, int> env; env.set(sm, &graph, &ord);
    { bool good = env.dim() == n;
      for (int i = 1; good && i <= n; i++) for (int j = 1; j <= i; j++) {
        double exact = N[(ord.perm(i) - 1) * n + ord.perm(j) - 1];
        const double* e = (i == j) ? nullptr : env.element(i, j);
        double got = (i == j) ? env.diagonal(i) : (e ? *e : 0.0);
        if (!e && i != j && exact != 0) good = false;            // a non-zero outside the profile
        if ((e || i == j) && std::fabs(got - exact) > 1e-12) good = false;
      }
      ok("envelope_set", good, "envelope does not hold the permuted normal matrix (or a non-zero lies outside the profile)"); }
    env.cholDec();
    ok("defect", env.defect() == n - rank, "envelope defect " + std::to_string(env.defect()) + ", exact n - rank = " + std::to_string(n - rank));
    { // L D L' = N_perm ; dependent pivots exactly zero
      std::vector<double> L(n * n, 0.0), D(n);
      int zeros = 0;
      for (int i = 1; i <= n; i++) { D[i - 1] = env.diagonal(i); if (D[i - 1] == 0) zeros++; L[(i - 1) * n + i - 1] = 1; for (int j = 1; j < i; j++) { const double* e = env.element(i, j); L[(i - 1) * n + j - 1] = e ? *e : 0; } }
      ok("zero_pivots", zeros == n - rank, "number of exactly zero pivots " + std::to_string(zeros) + " != defect " + std::to_string(n - rank));
      bool good = true;
      if (zeros == 0)
        for (int i = 0; good && i < n; i++) for (int j = 0; j <= i; j++) { double s = 0; for (int k = 0; k <= j; k++) s += L[i * n + k] * D[k] * L[j * n + k]; if (std::fabs(s - N[(ord.perm(i + 1) - 1) * n + ord.perm(j + 1) - 1]) > 1e-9) good = false; }
      ok("ldl", good, "L D L' does not reconstruct the permuted normal matrix");
      // solve N x = r with r in the range of N
      std::vector<double> r(n, 0.0), x0(n);
      for (int i = 0; i < n; i++) x0[i] = i + 1;
      for (int i = 0; i < n; i++) for (int j = 0; j < n; j++) r[i] += N[(ord.perm(i + 1) - 1) * n + ord.perm(j + 1) - 1] * x0[j];
      std::vector<double> x(r);
      env.solve(x.data(), n);
      good = true;
      for (int i = 0; i < n; i++) { double s = 0; for (int j = 0; j < n; j++) s += N[(ord.perm(i + 1) - 1) * n + ord.perm(j + 1) - 1] * x[j]; if (std::fabs(s - r[i]) > 1e-8 * (1 + std::fabs(r[i]))) good = false; }
      ok("solve", good, "solve() does not satisfy N x = r for a consistent right-hand side");
      { // solve() against the dense definition of the same factorisation for right-hand sides outside the range of N (unit vectors):
        // dense L D L' of the permuted matrix without pivoting, dependent pivots are zero, z(i) = 0 where d(i) = 0
        std::vector<double> M(n * n), Ld(n * n, 0.0), Dd(n, 0.0);
        for (int i = 0; i < n; i++) for (int j = 0; j < n; j++) M[i * n + j] = N[(ord.perm(i + 1) - 1) * n + ord.perm(j + 1) - 1];
        for (int j = 0; j < n; j++) {
          double d = M[j * n + j]; for (int k = 0; k < j; k++) d -= Ld[j * n + k] * Ld[j * n + k] * Dd[k];
          if (std::fabs(d) < 1e-9) d = 0;
          Dd[j] = d; Ld[j * n + j] = 1;
          for (int i = j + 1; i < n; i++) { double v = M[i * n + j]; for (int k = 0; k < j; k++) v -= Ld[i * n + k] * Ld[j * n + k] * Dd[k]; Ld[i * n + j] = d != 0 ? v / d : 0; }
        }
        bool okall = true; std::string msg;
        for (int u = 0; u <= n && okall; u++) {
          std::vector<double> rr(n, 0.0);
          if (u < n) rr[u] = 1; else for (int i = 0; i < n; i++) rr[i] = 3 + 2 * i - (i % 2) * 7;
          std::vector<double> ref(rr);
          for (int i = 0; i < n; i++) for (int k = 0; k < i; k++) ref[i] -= Ld[i * n + k] * ref[k];
          for (int i = 0; i < n; i++) ref[i] = Dd[i] != 0 ? ref[i] / Dd[i] : 0;
          for (int i = n - 1; i >= 0; i--) for (int k = i + 1; k < n; k++) ref[i] -= Ld[k * n + i] * ref[k];
          std::vector<double> got(rr);
          env.solve(got.data(), n);
          for (int i = 0; i < n; i++) if (std::fabs(got[i] - ref[i]) > 1e-8 * (1 + std::fabs(ref[i]))) { okall = false; msg = "solve() for right-hand side #" + std::to_string(u) + ": x(" + std::to_string(i + 1) + ") = " + std::to_string(got[i]) + ", dense L D L' definition gives " + std::to_string(ref[i]); break; }
        }
        ok("solve_any_rhs", okall, msg);
      }
      Envelope<double, int> q0; q0.inverse(env);
      good = true;
      std::vector<double> Q(n * n, 0.0); bool full = true;
      for (int i = 1; i <= n; i++) for (int j = 1; j <= i; j++) { const double* e = (i == j) ? nullptr : q0.element(i, j); if (i != j && !e) { full = false; continue; } double v = (i == j) ? q0.diagonal(i) : *e; Q[(i - 1) * n + j - 1] = Q[(j - 1) * n + i - 1] = v; }
      if (full) {
        for (int i = 0; good && i < n; i++) for (int j = 0; j < n; j++) { double s = 0; for (int a = 0; a < n; a++) for (int b = 0; b < n; b++) s += N[(ord.perm(i + 1) - 1) * n + ord.perm(a + 1) - 1] * Q[a * n + b] * N[(ord.perm(b + 1) - 1) * n + ord.perm(j + 1) - 1];
          if (std::fabs(s - N[(ord.perm(i + 1) - 1) * n + ord.perm(j + 1) - 1]) > 1e-8 * (1 + std::fabs(s))) good = false; }
        ok("inverse", good, "sparse inverse Q does not satisfy N Q N = N");
      }
    }
    delete sm;
  }
  std::cout << "{\"t\":\"summary\",\"cases\":" << ncase << ",\"fails\":" << nfail << ",\"checks\":{";
  bool first = true; for (auto& kv : checks) { std::cout << (first ? "" : ",") << jstr(kv.first) << ":" << kv.second; first = false; }
  std::cout << "}}\n";
  return 0;
}
