// Geodetic primitives against spec/Geodesy.tla.
// input lines: E <ellipsoid index 1..> <lat deg> <lon deg> <h m>  |  B <xa> <ya> <xb> <yb>
#include "vh.h"
#include <gnu_gama/ellipsoid.h>
#include <gnu_gama/ellipsoids.h>
#include <gnu_gama/local/bearing.h>
#include <gnu_gama/e3.h>
using namespace vh;
int main(int argc, char** argv) {
  if (argc < 2) Tok::fail("usage: drv_geo file");
  std::ifstream in(argv[1]);
  Tok t(in);
  std::string w;
  while (t.next(w)) {
    if (w == "E") {
      int id = t.num(); double lat = t.dbl(), lon = t.dbl(), h = t.dbl();
      GNU_gama::Ellipsoid el;
      int rc = GNU_gama::set(&el, GNU_gama::gama_ellipsoid(id));
      double b = lat * M_PI / 180, l = lon * M_PI / 180, x, y, z, b2, l2, h2, x2, y2, z2;
      el.blh2xyz(b, l, h, x, y, z);
      el.xyz2blh(x, y, z, b2, l2, h2);
      el.blh2xyz(b2, l2, h2, x2, y2, z2);
      // R_3: rotation north-east-up -> xyz at (b, l); textbook columns, R'R = I, inverse(rotation(v)) = v
      double rot = 0;
      {
        GNU_gama::R_3 R; R.set_rotation(b, l);
        const double sb = std::sin(b), cb = std::cos(b), sl = std::sin(l), cl = std::cos(l);
        const double T[3][3] = {{-sb * cl, -sl, cb * cl}, {-sb * sl, cl, cb * sl}, {cb, 0, sb}};       // columns: north, east, up
        for (int j = 0; j < 3; j++) {
          GNU_gama::E_3 u(j == 0, j == 1, j == 2), v, back;
          R.rotation(u, v);
          rot = std::max(rot, std::max(std::fabs(v.e1 - T[0][j]), std::max(std::fabs(v.e2 - T[1][j]), std::fabs(v.e3 - T[2][j]))));
          R.inverse(v, back);
          rot = std::max(rot, std::max(std::fabs(back.e1 - u.e1), std::max(std::fabs(back.e2 - u.e2), std::fabs(back.e3 - u.e3))));
        }
      }
      std::cout << "{\"t\":\"E\",\"rot\":" << jnum(rot) << ",\"id\":" << id << ",\"rc\":" << rc << ",\"name\":" << jstr(GNU_gama::gama_ellipsoid_id[id] ? GNU_gama::gama_ellipsoid_id[id] : "?") << ",\"a\":" << jnum(el.a()) << ",\"b\":" << jnum(el.b())
                << ",\"lat\":" << jnum(lat) << ",\"lon\":" << jnum(lon) << ",\"h\":" << jnum(h) << ",\"xyz\":[" << jnum(x) << "," << jnum(y) << "," << jnum(z) << "],\"blh\":["
                << jnum(b2 * 180 / M_PI) << "," << jnum(l2 * 180 / M_PI) << "," << jnum(h2) << "],\"xyz2\":[" << jnum(x2) << "," << jnum(y2) << "," << jnum(z2) << "]}\n";
    } else if (w == "B") {
      double xa = t.dbl(), ya = t.dbl(), xb = t.dbl(), yb = t.dbl(), b1, d1, b2, d2;
      GNU_gama::local::bearing_distance(ya, xa, yb, xb, b1, d1);
      GNU_gama::local::bearing_distance(yb, xb, ya, xa, b2, d2);
      std::cout << "{\"t\":\"B\",\"a\":[" << jnum(xa) << "," << jnum(ya) << "],\"b\":[" << jnum(xb) << "," << jnum(yb) << "],\"ab\":[" << jnum(b1) << "," << jnum(d1) << "],\"ba\":[" << jnum(b2) << "," << jnum(d2) << "]}\n";
    }
  }
  return 0;
}
