// Shared helpers of the conformance drivers: token reader for the case files written
// by tools/ (converted from TLC's JSON), problem construction for every solver entry
// point, JSON output, and the read-only probe into private solver state.
#ifndef VERIF_VH_H
#define VERIF_VH_H

#include <cmath>
#include <cstdio>
#include <cstdlib>
#include <cstring>
#include <fstream>
#include <iostream>
#include <memory>
#include <sstream>
#include <string>
#include <vector>

#include <matvec/matvec.h>
#include <matvec/covmat.h>
#include <gnu_gama/adj/adj.h>
#include <gnu_gama/adj/adj_input_data.h>
#include <gnu_gama/adj/adj_envelope.h>
#include <gnu_gama/adj/adj_chol.h>
#include <gnu_gama/adj/adj_gso.h>
#include <gnu_gama/adj/adj_svd.h>
#include <gnu_gama/sparse/smatrix.h>
#include <gnu_gama/sparse/sbdiagonal.h>
#include <gnu_gama/sparse/intlist.h>

namespace vh {

typedef GNU_gama::Exception::matvec Exc;
typedef GNU_gama::Mat<double, int, Exc> DMat;
typedef GNU_gama::Vec<double, int, Exc> DVec;
typedef GNU_gama::AdjBase<double, int, Exc> Base;
typedef GNU_gama::AdjEnvelope<double, int, Exc> Env;
typedef GNU_gama::AdjCholDec<double, int, Exc> Chol;
typedef GNU_gama::AdjGSO<double, int, Exc> Gso;
typedef GNU_gama::AdjSVD<double, int, Exc> Svd;

struct Tok {
  std::istream& in;
  explicit Tok(std::istream& i) : in(i) {}
  bool next(std::string& s) { return bool(in >> s); }
  std::string str() { std::string s; if (!(in >> s)) fail("unexpected end of input"); return s; }
  long num() { std::string s = str(); char* e; long v = strtol(s.c_str(), &e, 10); if (*e) fail("integer expected, got " + s); return v; }
  double dbl() { std::string s = str(); char* e; double v = strtod(s.c_str(), &e); if (*e) fail("number expected, got " + s); return v; }
  void expect(const char* w) { std::string s = str(); if (s != w) fail(std::string("expected ") + w + " got " + s); }
  static void fail(const std::string& m) { std::cerr << "HARNESS-ERROR: " << m << std::endl; exit(3); }
};

struct Block { int dim, band; long det; std::vector<double> C, W; };

struct Problem {
  std::string id;
  int n = 0, m = 0, rank = 0;
  bool all = true, adm = true;
  std::vector<double> A;      // row major m x n
  std::vector<double> b;
  std::vector<Block> blocks;
  std::vector<std::vector<long> > G;   // d null vectors of length n
  std::vector<int> S;
  double a(int i, int j) const { return A[(i - 1) * n + (j - 1)]; }
  int defect() const { return n - rank; }
};

// PROB <id> <n> <m> <rank> <all> <adm> / A .. / B .. / NB k / BLK dim band det C.. W.. / G d .. / S k .. / END
inline bool read_problem(Tok& t, Problem& p) {
  p = Problem();
  p.id = t.str();
  p.n = t.num(); p.m = t.num(); p.rank = t.num(); p.all = t.num(); p.adm = t.num();
  t.expect("A");
  p.A.resize(p.n * p.m);
  for (auto& v : p.A) v = t.dbl();
  t.expect("B");
  p.b.resize(p.m);
  for (auto& v : p.b) v = t.dbl();
  t.expect("NB");
  int nb = t.num();
  for (int k = 0; k < nb; k++) {
    t.expect("BLK");
    Block bl;
    bl.dim = t.num(); bl.band = t.num(); bl.det = t.num();
    bl.C.resize(bl.dim * bl.dim); bl.W.resize(bl.det == 0 ? 0 : bl.dim * bl.dim);
    for (auto& v : bl.C) v = t.dbl();
    for (auto& v : bl.W) v = t.dbl();
    p.blocks.push_back(bl);
  }
  t.expect("G");
  int d = t.num();
  p.G.assign(d, std::vector<long>(p.n));
  for (auto& g : p.G) for (auto& v : g) v = t.num();
  t.expect("S");
  int k = t.num();
  p.S.resize(k);
  for (auto& v : p.S) v = t.num();
  t.expect("END");
  return true;
}

// AdjInputData as LocalNetwork::project_equations and gama-g3 build it: sparse design
// matrix from the non-zero coefficients, block diagonal band covariance, rhs.
inline GNU_gama::AdjInputData* make_input(const Problem& p, bool with_minx = false) {
  using namespace GNU_gama;
  int nz = 0;
  for (double v : p.A) if (v != 0) nz++;
  SparseMatrix<>* sm = new SparseMatrix<>(nz ? nz : 1, p.m, p.n);
  for (int i = 1; i <= p.m; i++) {
    sm->new_row();
    for (int j = 1; j <= p.n; j++) if (p.a(i, j) != 0) sm->add_element(p.a(i, j), j);
  }
  int msize = 0;
  for (const Block& bl : p.blocks) msize += 1 + bl.dim * (bl.band + 1) - bl.band * (bl.band + 1) / 2;
  BlockDiagonal<>* bd = new BlockDiagonal<>(p.blocks.size(), msize);
  for (const Block& bl : p.blocks) {
    CovMat<> C(bl.dim, bl.band);
    for (int i = 1; i <= bl.dim; i++)
      for (int j = i; j <= std::min(bl.dim, i + bl.band); j++) C(i, j) = bl.C[(i - 1) * bl.dim + (j - 1)];
    bd->add_block(bl.dim, bl.band, C.begin());
  }
  Vec<> rhs(p.m);
  for (int i = 1; i <= p.m; i++) rhs(i) = p.b[i - 1];
  AdjInputData* inp = new AdjInputData;
  inp->set_mat(sm);
  inp->set_cov(bd);
  inp->set_rhs(rhs);
  if (with_minx && !p.all) {
    IntegerList<>* l = new IntegerList<>(p.S.size());
    int k = 0;
    for (auto i = l->begin(); i != l->end(); ++i) *i = p.S[k++];
    inp->set_minx(l);
  }
  return inp;
}

// Dense homogenised system exactly as LocalNetwork::prepareProjectEquations produces it
// for the full-matrix solvers (Adj::choldec + Adj::forwardSubstitution per block).
inline void make_homogenised(const Problem& p, DMat& A, DVec& b) {
  using namespace GNU_gama;
  A.reset(p.m, p.n);
  b.reset(p.m);
  for (int i = 1; i <= p.m; i++) {
    b(i) = p.b[i - 1];
    for (int j = 1; j <= p.n; j++) A(i, j) = p.a(i, j);
  }
  int ind0 = 0;
  for (const Block& bl : p.blocks) {
    const int N = bl.dim;
    CovMat<> C(N, bl.band);
    for (int i = 1; i <= N; i++)
      for (int j = i; j <= std::min(N, i + bl.band); j++) C(i, j) = bl.C[(i - 1) * N + (j - 1)];
    Adj::choldec(C);
    Vec<> t(N);
    for (int j = 1; j <= p.n; j++) {
      for (int k = 1; k <= N; k++) t(k) = A(ind0 + k, j);
      Adj::forwardSubstitution(C, t);
      for (int l = 1; l <= N; l++) A(ind0 + l, j) = t(l);
    }
    for (int k = 1; k <= N; k++) t(k) = b(ind0 + k);
    Adj::forwardSubstitution(C, t);
    for (int l = 1; l <= N; l++) b(ind0 + l) = t(l);
    ind0 += N;
  }
}

// A solver object of one of the eight entry points together with the data it points to.
struct Solver {
  std::string path;                       // env chol gso svd
  std::unique_ptr<Base> s;
  std::unique_ptr<GNU_gama::AdjInputData> inp;
  DMat A; DVec b;
  Env* env() { return dynamic_cast<Env*>(s.get()); }
  void create(const std::string& alg) {
    path = alg;
    if (alg == "env") s.reset(new Env);
    else if (alg == "chol") s.reset(new Chol);
    else if (alg == "gso") s.reset(new Gso);
    else if (alg == "svd") s.reset(new Svd);
    else Tok::fail("unknown solver " + alg);
  }
  void load(const Problem& p) {
    if (Env* e = env()) {
      GNU_gama::AdjInputData* ni = make_input(p);
      e->reset(ni);
      inp.reset(ni);                      // the old input dies after the reset
    } else {
      make_homogenised(p, A, b);
      dynamic_cast<GNU_gama::AdjBaseFull<double, int, Exc>*>(s.get())->reset(A, b);
    }
  }
  void minx(const std::vector<int>& S, bool all) {
    if (all) s->min_x();
    else { std::vector<int> t(S); t.push_back(0); s->min_x((int)S.size(), t.data()); }
  }
};

inline GNU_gama::Adj::algorithm adj_alg(const std::string& a) {
  if (a == "env") return GNU_gama::Adj::envelope;
  if (a == "chol") return GNU_gama::Adj::cholesky;
  if (a == "gso") return GNU_gama::Adj::gso;
  if (a == "svd") return GNU_gama::Adj::svd;
  Tok::fail("unknown algorithm " + a);
  return GNU_gama::Adj::envelope;
}

// ---- JSON output ----
inline std::string jnum(double v) {
  if (std::isnan(v)) return "\"nan\"";
  if (std::isinf(v)) return v > 0 ? "\"inf\"" : "\"-inf\"";
  char buf[40];
  snprintf(buf, sizeof buf, "%.17g", v);
  return buf;
}
inline std::string jstr(const std::string& s) {
  std::string o = "\"";
  for (char c : s) {
    if (c == '"' || c == '\\') { o += '\\'; o += c; }
    else if (c == '\n') o += "\\n";
    else if ((unsigned char)c < 0x20) { char b[8]; snprintf(b, sizeof b, "\\u%04x", c); o += b; }
    else o += c;
  }
  return o + "\"";
}
template <class V> std::string jvec(const V& v, int n) {
  std::string o = "[";
  for (int i = 1; i <= n; i++) { if (i > 1) o += ","; o += jnum(v(i)); }
  return o + "]";
}
inline std::string jints(const std::vector<int>& v) {
  std::string o = "[";
  for (size_t i = 0; i < v.size(); i++) { if (i) o += ","; o += std::to_string(v[i]); }
  return o + "]";
}

inline bool close(double a, double b, double tol) {
  if (std::isnan(a) || std::isnan(b)) return false;
  return std::fabs(a - b) <= tol * std::max(1.0, std::max(std::fabs(a), std::fabs(b)));
}

}  // namespace vh

// ---- read-only probe (friend of the solver classes when built with -DGAMA_VERIF) ----
namespace GNU_gama {
struct VerifProbe {
  template <class E> static int env_stage(const E& e) { return e.stage; }
  template <class E> static std::vector<int> env_flags(const E& e) {
    return std::vector<int>{e.init_x, e.init_q0, e.init_residuals, e.init_q_bb};
  }
  template <class E> static std::vector<int> env_keys(const E& e) {
    std::vector<int> k;
    for (size_t i = 0; i < e.indbuf.active; i++) k.push_back(e.indbuf.key_[i]);
    return k;
  }
  template <class E> static int env_minnull(const E& e) { return e.min_x_list == nullptr; }
  template <class E> static int env_nullity(const E& e) { return e.nullity; }
  template <class E> static int env_invp(E& e, int i) { return e.ordering.invp(i); }
  template <class E> static bool env_inside(E& e, int i, int j) { return e.q0.element(e.ordering.invp(i), e.ordering.invp(j)) != nullptr; }
  template <class E> static bool env_qbb_direct(E& e, int i, int j) {
    const auto* dm = e.design_matrix;
    for (const int* n = dm->ibegin(i); n != dm->iend(i); ++n)
      for (const int* n2 = dm->ibegin(j); n2 != dm->iend(j); ++n2)
        if (e.q0.element(e.ordering.invp(*n), e.ordering.invp(*n2)) == nullptr) return false;
    return true;
  }
  template <class E> static int env_bufdim(const E& e) { return e.qxxbuf.empty() ? -1 : e.qxxbuf[0].dim(); }
  template <class F> static int full_solved(const F& f) { return f.is_solved; }
  template <class S> static int svd_decomposed(const S& a) { return a.svd.decomposed; }
  template <class S> static int svd_minx_subset(const S& a) { return a.svd.minx != 0; }
  template <class C> static int chol_minx_subset(const C& c) { return c.minx_t != 0; }
  template <class C> static int chol_nullity(const C& c) { return c.nullity; }
  template <class M> static void mtf_set(M& m, const std::vector<int>& keys, const std::vector<int>& bufs) {
    m.active = keys.size();
    for (size_t i = 0; i < keys.size(); i++) m.key_[i] = keys[i];
    for (size_t i = 0; i < bufs.size(); i++) m.buf_[i] = bufs[i];
  }
  template <class M> static std::vector<int> mtf_keys(const M& m) { std::vector<int> k; for (size_t i = 0; i < m.active; i++) k.push_back(m.key_[i]); return k; }
  template <class M> static std::vector<int> mtf_bufs(const M& m) { std::vector<int> k; for (size_t i = 0; i < m.size(); i++) k.push_back(m.buf_[i]); return k; }
  static int adj_solved(const Adj& a) { return a.solved; }
  static int adj_has_solver(const Adj& a) { return a.least_squares != nullptr; }
  static int adj_algorithm(const Adj& a) { return a.algorithm_; }
  // LocalNetwork life-cycle flags: revision of points, revision of observations, project equations, adjustment
  template <class N> static std::vector<int> net_flags(const N& n) { return std::vector<int>{n.tst_redbod_, n.tst_redmer_, n.tst_rov_opr_, n.tst_vyrovnani_}; }
};
}  // namespace GNU_gama

#endif
