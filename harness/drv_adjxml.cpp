// Reads <adj-input-data> documents (gama-g3 --project-equations) with gama's DataParser and
// adjusts them with the general adjustment class Adj for the four algorithms.
// usage: drv_adjxml file ...  -> one JSON object per file
#include "vh.h"
#include <gnu_gama/xml/dataparser.h>
#include <gnu_gama/xml/dataobject.h>
#include <list>
using namespace vh;
int main(int argc, char** argv) {
  for (int f = 1; f < argc; f++) {
    std::cout << "{\"file\":" << jstr(argv[f]);
    try {
      std::list<GNU_gama::DataObject::Base*> objects;
      {
        GNU_gama::DataParser parser(objects);
        std::ifstream in(argv[f]);
        std::string text((std::istreambuf_iterator<char>(in)), std::istreambuf_iterator<char>());
        parser.xml_parse(text.c_str(), (int)text.size(), 1);
      }
      GNU_gama::AdjInputData* data = nullptr;
      for (auto* o : objects)
        if (auto* a = dynamic_cast<GNU_gama::DataObject::AdjInput*>(o)) { data = a->data; a->data = nullptr; }
      if (!data) { std::cout << ",\"error\":\"no adj-input-data\"}\n"; continue; }
      std::cout << ",\"rows\":" << data->mat()->rows() << ",\"cols\":" << data->mat()->columns() << ",\"alg\":{";
      const char* algs[] = {"env", "chol", "gso", "svd"};
      GNU_gama::Adj adj;
      adj.set(data);                                 // Adj owns the data
      for (int a = 0; a < 4; a++) {
        adj.set_algorithm(adj_alg(algs[a]));
        const auto& x = adj.x();
        const auto& r = adj.r();
        std::cout << (a ? "," : "") << jstr(algs[a]) << ":{\"x\":" << jvec(x, x.dim()) << ",\"r\":" << jvec(r, r.dim()) << ",\"rtr\":" << jnum(adj.rtr()) << ",\"defect\":" << adj.defect() << "}";
      }
      std::cout << "}";
    } catch (const GNU_gama::Exception::parser& e) { std::cout << ",\"error\":" << jstr(std::string("parser: ") + e.what());
    } catch (const GNU_gama::Exception::base& e) { std::cout << ",\"error\":" << jstr(e.what());
    } catch (const std::exception& e) { std::cout << ",\"error\":" << jstr(e.what()); }
    std::cout << "}\n";
  }
  return 0;
}
