// Replays event sequences of spec/G3Parser.tla on GNU_gama::DataParser (gama-g3 input, gama-g3 results, adj-input-data).
// The driver derives from DataParser only to read the protected members state / errCode / errLineNumber and to feed expat
// chunk by chunk without BaseParser::xml_parse's end-of-chunk test, which it calls where the model has a ChunkEnd step.
//
// input:  DOC <id> / C <text with \n escaped>  (one chunk: fed with XML_Parse, state reported)
//                  / K  (end of a chunk as xml_parse sees it)   / F  (final xml_parse("", 0, 1)) / END
// output: one JSON line per document
#include "vh.h"
#include <gnu_gama/xml/dataparser.h>
#include <expat.h>
#include <list>
using namespace vh;

struct Probe : GNU_gama::DataParser {
  explicit Probe(std::list<GNU_gama::DataObject::Base*>& l) : GNU_gama::DataParser(l) {}
  int st() const { return state; }
  int ec() const { return errCode; }
  int el() const { return errLineNumber; }
  const std::string& es() const { return errString; }
  int feed(const std::string& s) { return XML_Parse(parser, s.c_str(), int(s.size()), 0); }
  int expat_line() { return int(XML_GetCurrentLineNumber(parser)); }
};

static std::string unesc(const std::string& s) {
  std::string r;
  for (size_t i = 0; i < s.size(); i++) {
    if (s[i] == '\\' && i + 1 < s.size()) { i++; r += (s[i] == 'n' ? '\n' : s[i] == 's' ? ' ' : s[i]); }
    else r += s[i];
  }
  return r;
}

int main(int argc, char** argv) {
  if (argc < 2) Tok::fail("usage: drv_dataparser script");
  std::ifstream in(argv[1]);
  if (!in) Tok::fail("cannot open script");
  std::string line;
  long ndoc = 0;
  while (std::getline(in, line)) {
    if (line.compare(0, 4, "DOC ") != 0) continue;
    std::string id = line.substr(4);
    std::list<GNU_gama::DataObject::Base*> objects;
    Probe* p = new Probe(objects);
    std::vector<int> states, errs;
    bool thrown = false, accepted = false, expat_error = false;
    int tline = 0, tat = -1; std::string tmsg; int tcode = 0;
    int step = 0;
    while (std::getline(in, line) && line != "END") {
      step++;
      if (thrown || expat_error) continue;
      try {
        if (line.compare(0, 2, "C ") == 0) {
          if (p->feed(unesc(line.substr(2))) == 0) { expat_error = true; tat = step; tline = p->expat_line(); }
        } else if (line == "K") {
          p->xml_parse("", 0, 0);
        } else if (line == "F") {
          p->xml_parse("", 0, 1);
          accepted = true;
        }
      } catch (const GNU_gama::Exception::parser& e) {
        thrown = true; tat = step; tline = e.line; tmsg = e.str; tcode = e.error_code;
      }
      states.push_back(p->st());
      errs.push_back(p->ec());
    }
    std::cout << "{\"doc\":" << jstr(id) << ",\"states\":" << jints(states) << ",\"err\":" << jints(errs) << ",\"thrown\":" << (thrown ? 1 : 0)
              << ",\"expat\":" << (expat_error ? 1 : 0) << ",\"at\":" << tat << ",\"line\":" << tline << ",\"code\":" << tcode << ",\"msg\":" << jstr(tmsg)
              << ",\"accepted\":" << (accepted ? 1 : 0) << ",\"errline\":" << p->el() << ",\"errstr\":" << jstr(p->es()) << ",\"objects\":" << objects.size() << "}\n";
    delete p;
    for (auto* o : objects) delete o;
    ndoc++;
  }
  std::cout << "{\"t\":\"summary\",\"docs\":" << ndoc << "}\n";
  return 0;
}
