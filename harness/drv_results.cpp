// Reads gama-local adjustment results with gama's own reader
// (LocalNetworkAdjustmentResults::read_xml / read_html) and dumps the projection as JSON.
// usage: drv_results xml|html file ...
#include "vh.h"
#include <gnu_gama/xml/localnetwork_adjustment_results.h>
using namespace vh;

static std::string pts(const GNU_gama::LocalNetworkAdjustmentResultsData::PointList& l) {
  std::string o = "[";
  bool first = true;
  for (const auto& p : l) {
    o += (first ? "" : ",");
    first = false;
    o += "{\"id\":" + jstr(p.id);
    if (p.hxy) o += ",\"x\":" + jnum(p.x) + ",\"y\":" + jnum(p.y) + ",\"cxy\":" + std::to_string(p.cxy);
    if (p.hz) o += ",\"z\":" + jnum(p.z) + ",\"cz\":" + std::to_string(p.cz);
    o += "}";
  }
  return o + "]";
}

int main(int argc, char** argv) {
  if (argc < 3) Tok::fail("usage: drv_results xml|html files...");
  std::string mode = argv[1];
  for (int f = 2; f < argc; f++) {
    std::cout << "{\"file\":" << jstr(argv[f]);
    try {
      GNU_gama::LocalNetworkAdjustmentResults r;
      std::ifstream in(argv[f]);
      if (mode == "xml") r.read_xml(in); else r.read_html(in);
      if (r.xmlerror.isValid()) {
        std::cout << ",\"xmlerror\":" << jstr(r.xmlerror.getCategory()) << ",\"line\":" << r.xmlerror.getLineNumber();
      } else {
        std::cout << ",\"description\":" << jstr(r.description) << ",\"axes\":" << jstr(r.network_general_parameters.axes_xy)
                  << ",\"equations\":" << r.project_equations.equations << ",\"unknowns\":" << r.project_equations.unknowns
                  << ",\"dof\":" << r.project_equations.degrees_of_freedom << ",\"defect\":" << r.project_equations.defect
                  << ",\"pvv\":" << jnum(r.project_equations.sum_of_squares) << ",\"apriori\":" << jnum(r.standard_deviation.apriori)
                  << ",\"aposteriori\":" << jnum(r.standard_deviation.aposteriori) << ",\"conf_scale\":" << jnum(r.standard_deviation.confidence_scale)
                  << ",\"probability\":" << jnum(r.standard_deviation.probability)
                  << ",\"fixed\":" << pts(r.fixed_points) << ",\"approximate\":" << pts(r.approximate_points) << ",\"adjusted\":" << pts(r.adjusted_points);
        std::cout << ",\"orientations\":[";
        for (size_t i = 0; i < r.orientations.size(); i++)
          std::cout << (i ? "," : "") << "{\"id\":" << jstr(r.orientations[i].id) << ",\"approx\":" << jnum(r.orientations[i].approx) << ",\"adj\":" << jnum(r.orientations[i].adj) << "}";
        std::cout << "],\"ellipses\":[";
        for (size_t i = 0; i < r.ellipses.size(); i++)
          std::cout << (i ? "," : "") << "{\"id\":" << jstr(r.ellipses[i].id) << ",\"major\":" << jnum(r.ellipses[i].major) << ",\"minor\":" << jnum(r.ellipses[i].minor) << ",\"alpha\":" << jnum(r.ellipses[i].alpha) << "}";
        std::cout << "],\"cov_dim\":" << r.cov.dim() << ",\"cov_band\":" << r.cov.bandWidth() << ",\"cov\":[";
        bool first = true;
        for (int i = 1; i <= r.cov.dim(); i++)
          for (int j = i; j <= std::min(r.cov.dim(), i + r.cov.bandWidth()); j++) { std::cout << (first ? "" : ",") << jnum(r.cov(i, j)); first = false; }
        std::cout << "],\"orig_index\":" << jints(r.original_index) << ",\"obs\":[";
        for (size_t i = 0; i < r.obslist.size(); i++) {
          const auto& o = r.obslist[i];
          std::cout << (i ? "," : "") << "{\"type\":" << jstr(o.xml_tag) << ",\"from\":" << jstr(o.from) << ",\"to\":" << jstr(o.to) << ",\"left\":" << jstr(o.left)
                    << ",\"right\":" << jstr(o.right) << ",\"obs\":" << jnum(o.obs) << ",\"adj\":" << jnum(o.adj) << ",\"stdev\":" << jnum(o.stdev)
                    << ",\"qrr\":" << jnum(o.qrr) << ",\"f\":" << jnum(o.f) << "}";
        }
        std::cout << "]";
      }
    } catch (const GNU_gama::Exception::parser& e) {
      std::cout << ",\"error\":" << jstr(std::string("parser: ") + e.what()) << ",\"line\":" << e.line;
    } catch (const GNU_gama::Exception::base& e) {
      std::cout << ",\"error\":" << jstr(e.what());
    } catch (const std::exception& e) {
      std::cout << ",\"error\":" << jstr(e.what());
    }
    std::cout << "}\n";
  }
  return 0;
}
