--------------------------- MODULE TraceEnvelope ---------------------------
(* Direction B: the projected state that drv_solver logs after every call on  *)
(* a real AdjEnvelope must be a behaviour of EnvelopeModel. Facts of the      *)
(* concrete problems come from the specification itself: nullity and the set  *)
(* of regularisation subsets that do not resolve the defect are computed with *)
(* ExactLA from the integer design matrices (problems file), so the expected  *)
(* BadRegularization exceptions are decided here, not copied from the log.    *)
EXTENDS EnvelopeModel, ExactLA, Json, IOUtils

TraceFile == IF "TRACE" \in DOMAIN IOEnv THEN IOEnv.TRACE ELSE "trace.ndjson"
ProbFile  == IF "PROBS" \in DOMAIN IOEnv THEN IOEnv.PROBS ELSE "probs.ndjson"
TraceLog == ndJsonDeserialize(TraceFile)
ProbLog  == ndJsonDeserialize(ProbFile)      \* records [A |-> matrix, n |-> columns]

VARIABLE l
tvars == <<vars, l>>

NP == Len(ProbLog)
ProbN(p) == ProbLog[p + 1].n
ProbG(p) == NullBasisN(ProbLog[p + 1].A, ProbLog[p + 1].n)
TraceFacts == [p \in 0..(NP - 1) |->
                [nullity |-> Len(ProbG(p)),
                 bad |-> {T \in SUBSET (1..ProbN(p)) : T # {} /\ ~Admissible(ProbG(p), T)}]]

Rec == TraceLog[l]
SeqToSet(s) == {s[i] : i \in 1..Len(s)}

(* in traces a regularisation is the set of selected unknowns; {} stands for "all" *)
(* the logged projection must equal the model's next state *)
Matches(st) ==
  /\ stage' = st.stage
  /\ ix' = (st.ix = 1) /\ iq0' = (st.iq0 = 1) /\ ires' = (st.ires = 1) /\ iqbb' = (st.iqbb = 1)
  /\ keys' = st.keys
  /\ minNull' = (st.minnull = 1)
  /\ bufOK' = (st.bufdim = ProbN(prob'))
  /\ ("nullity" \in DOMAIN st => st.nullity = facts[prob'].nullity)

IsEvent(e) == l <= Len(TraceLog) /\ Rec.e = e /\ l' = l + 1

FreshObject(p) ==
  /\ stage' = 0 /\ ix' = TRUE /\ iq0' = TRUE /\ ires' = TRUE /\ iqbb' = TRUE
  /\ keys' = <<>> /\ ctag' = <<>> /\ minNull' = TRUE /\ bufOK' = FALSE
  /\ prob' = p /\ reg' = {}
  /\ xtag' = NoTag /\ rtag' = NoTag /\ q0tag' = NoTag /\ ftag' = NoTag
  /\ served' = [kind |-> "none", tag |-> NoTag]
  /\ UNCHANGED facts

Threw == served'.kind = "exc"
Has(f) == f \in DOMAIN Rec
PK == IF Has("pi") THEN (IF Rec.pi < Rec.pj THEN Rec.pj ELSE Rec.pi) ELSE 1
Inside == IF Has("inside") THEN Rec.inside = 1 ELSE TRUE

TNew    == IsEvent("New") /\ FreshObject(Rec.prob) /\ Matches(Rec.st)
TReset  == IsEvent("Reset") /\ Reset(Rec.prob) /\ Matches(Rec.st)
TMinAll == IsEvent("MinAll") /\ MinX({}) /\ Matches(Rec.st)
TMinSub == IsEvent("MinSub") /\ MinX(SeqToSet(Rec.S)) /\ Matches(Rec.st) /\ Rec.exc = 0
TX      == IsEvent("x") /\ Unknowns /\ Matches(Rec.st) /\ (Threw <=> Rec.exc = 1)
TR      == IsEvent("r") /\ Residuals /\ Matches(Rec.st) /\ Rec.exc = 0
TSS     == IsEvent("ss") /\ Factor("ss") /\ Matches(Rec.st) /\ Rec.exc = 0
TDF     == IsEvent("df") /\ Factor("df") /\ Matches(Rec.st) /\ Rec.exc = 0
TLD     == IsEvent("ld") /\ Factor("ld") /\ Matches(Rec.st) /\ Rec.exc = 0
TQxx    == IsEvent("qxx") /\ Qxx(Rec.a[1], Rec.a[2], Inside, PK) /\ Matches(Rec.st) /\ (Threw <=> Rec.exc = 1)
TQ0     == IsEvent("q0") /\ Q0xx(Inside, PK) /\ Matches(Rec.st) /\ Rec.exc = 0
TQbb    == IsEvent("qbb") /\ Qbb(IF Has("direct") THEN Rec.direct = 1 ELSE TRUE) /\ Matches(Rec.st) /\ Rec.exc = 0

TraceInit ==
  /\ l = 1
  /\ stage = 0 /\ ix = TRUE /\ iq0 = TRUE /\ ires = TRUE /\ iqbb = TRUE
  /\ keys = <<>> /\ ctag = <<>> /\ minNull = TRUE /\ bufOK = FALSE
  /\ prob = 0 /\ reg = {}
  /\ xtag = NoTag /\ rtag = NoTag /\ q0tag = NoTag /\ ftag = NoTag
  /\ facts = TraceFacts
  /\ served = [kind |-> "none", tag |-> NoTag]

TraceNext == TNew \/ TReset \/ TMinAll \/ TMinSub \/ TX \/ TR \/ TSS \/ TDF \/ TLD \/ TQxx \/ TQ0 \/ TQbb
TraceSpec == TraceInit /\ [][TraceNext]_tvars

(* the whole log was consumed (one state per record plus the initial state) *)
TraceAccepted == TLCGet("stats").diameter - 1 = Len(TraceLog)
(* where the longest accepted prefix ended, for diagnosis *)
Progress == TLCSet(1, l) 
=============================================================================
