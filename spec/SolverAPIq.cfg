SPECIFICATION Spec
CONSTANTS NU = 3
          NM = 4
          NP = 2
          MaxLen = 3
          Keep = 17
          Seed = 1
INVARIANT Emit
CHECK_DEADLOCK FALSE
