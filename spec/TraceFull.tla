----------------------------- MODULE TraceFull -----------------------------
(* Direction B for AdjCholDec / AdjGSO / AdjSVD: the logged is_solved /         *)
(* decomposed flags and the logged exceptions of every call must be a behaviour *)
(* of FullSolverModel; nullity and bad subsets come from ExactLA.               *)
EXTENDS FullSolverModel, ExactLA, Json, IOUtils

TraceFile == IF "TRACE" \in DOMAIN IOEnv THEN IOEnv.TRACE ELSE "trace.ndjson"
ProbFile  == IF "PROBS" \in DOMAIN IOEnv THEN IOEnv.PROBS ELSE "probs.ndjson"
TraceLog == ndJsonDeserialize(TraceFile)
ProbLog  == ndJsonDeserialize(ProbFile)

VARIABLE l
tvars == <<vars, l>>

NP == Len(ProbLog)
ProbN(p) == ProbLog[p + 1].n
ProbG(p) == NullBasisN(ProbLog[p + 1].A, ProbLog[p + 1].n)
TraceFacts == [p \in 0..(NP - 1) |->
                [nullity |-> Len(ProbG(p)),
                 bad |-> {T \in SUBSET (1..ProbN(p)) : T # {} /\ ~Admissible(ProbG(p), T)}]]
Rec == TraceLog[l]
SeqToSet(s) == {s[i] : i \in 1..Len(s)}

Matches(st) == /\ solved' = (st.solved = 1)
               /\ (Alg = "svd" => dec' = (st.decomposed = 1))
IsEvent(e) == l <= Len(TraceLog) /\ Rec.e = e /\ l' = l + 1
Threw == served'.kind = "exc"

FreshObject(p) == /\ solved' = FALSE /\ dec' = FALSE /\ prob' = p /\ reg' = {}
                  /\ xtag' = NoTag /\ dtag' = NoTag /\ served' = [kind |-> "none", tag |-> NoTag]
                  /\ UNCHANGED facts

TNew    == IsEvent("New") /\ FreshObject(Rec.prob) /\ Matches(Rec.st)
TReset  == IsEvent("Reset") /\ Reset(Rec.prob) /\ Matches(Rec.st)
TMinAll == IsEvent("MinAll") /\ MinX({}) /\ Matches(Rec.st)
TMinSub == IsEvent("MinSub") /\ MinX(SeqToSet(Rec.S)) /\ Matches(Rec.st) /\ (Threw <=> Rec.exc = 1)
TQuery  == \E k \in {"x", "r", "ss", "qxx", "qbb"} : IsEvent(k) /\ Query(k) /\ Matches(Rec.st) /\ (Threw <=> Rec.exc = 1)
TQ0     == IsEvent("q0") /\ Query("qxx") /\ Matches(Rec.st) /\ (Threw <=> Rec.exc = 1)
TDF     == IsEvent("df") /\ Defect /\ Matches(Rec.st) /\ (Threw <=> Rec.exc = 1)
TLD     == IsEvent("ld") /\ Lindep /\ Matches(Rec.st) /\ (Threw <=> Rec.exc = 1)

TraceInit == /\ l = 1 /\ solved = FALSE /\ dec = FALSE /\ prob = 0 /\ reg = {}
             /\ xtag = NoTag /\ dtag = NoTag /\ facts = TraceFacts
             /\ served = [kind |-> "none", tag |-> NoTag]
TraceNext == TNew \/ TReset \/ TMinAll \/ TMinSub \/ TQuery \/ TQ0 \/ TDF \/ TLD
TraceSpec == TraceInit /\ [][TraceNext]_tvars
TraceAccepted == TLCGet("stats").diameter - 1 = Len(TraceLog)
=============================================================================
