SPECIFICATION TraceSpec
CONSTANTS NU = 4
          Probs = {0, 1}
          Regs = {}
          AllReg = {}
          NoProb = 99
          NoReg = {99}
          Fixed = TRUE
INVARIANT CacheSound
INVARIANT KindMatchesKeySpace
INVARIANT ServedCurrent
INVARIANT StageFlags
INVARIANT ExceptionRepeatable
POSTCONDITION TraceAccepted
CHECK_DEADLOCK FALSE
