----------------------------- MODULE G3Parser -----------------------------
\* Control model of GNU_gama::DataParser (lib/gnu_gama/xml/dataparser*.cpp, baseparser.*), the
\* reader of <gnu-gama-data> documents: gama-g3 input (<g3-model>), gama-g3 results
\* (<g3-adjustment-results>), <adj-input-data> and <text>.
\*
\* The parser has no stack.  Its control is the table next[s][t], after[z], data[s], etag[z]
\* filled by ~280 calls init(s,t, n,z,a, stag,data,etag [,z2]); expat supplies the guarantee that
\* tags nest.  Module G3Table (generated from the sources of the working tree on every run by
\* tools/g3table.py) lists the init() calls in constructor order; this module transcribes
\*   - DataParser::init  (operators OpenIx / AfterTab / DataTab / EtagTab: "last writer wins"),
\*   - startElement / start_tag / parser_error / no_attributes,  endElement / end_tag,
\*     characterDataHandler / white_spaces / add_text,   CoreParser::error (first error only,
\*     state := 0),   BaseParser::xml_parse (state = 0 is looked at only when a chunk ends),
\* one action per handler entry, the end of a chunk being a separate, independently enabled step.
\* Handlers with semantic checks (cov-mat dimensions, number syntax ...) are modelled by the
\* action's `refuse` choice: they may call error() instead of end_tag().
\*
\* Properties (C11: accepted, or refused with a located diagnostic):
\*   Located        a refusal always carries the line of an error() call
\*   ErrorAbsorbing after error() nothing is accepted and no handler runs on garbage
\*   Nesting        a closing tag returns to the state its opening init() declared
\*   NoNullHandler  no reachable state has a null end-tag handler
\*   StopIsRoot     s_stop is reached exactly when the root element closes without error
EXTENDS Naturals, Sequences, FiniteSets, TLC, Json, G3Table

CONSTANTS MaxDepth,     \* bound on the element stack
          MaxAfterErr   \* events explored after the first error()

VARIABLES st,        \* DataParser::state
          stack,     \* expat's element stack: <<[t |-> tag, a |-> after-state declared by the opening init, or "none"]>>
          err,       \* errCode # 0
          out,       \* "run" | "located" | "unlocated" | "accepted" | "nostop"
          nerr,      \* events since the first error()
          ev         \* last event (ghost, for rendering documents)
vars == <<st, stack, err, out, nerr, ev>>

NI == Len(Inits)
EffZ(i) == IF i.z = "0" THEN i.n ELSE i.z
EffA(i) == IF i.a = "0" THEN i.s ELSE i.a
LastOf(S) == CHOOSE k \in S : \A j \in S : j <= k

States == {"s_error", "s_start", "s_stop"}
          \cup {Inits[k].s : k \in 1..NI} \cup {Inits[k].n : k \in 1..NI}
          \cup {EffZ(Inits[k]) : k \in 1..NI} \cup {EffA(Inits[k]) : k \in 1..NI}
          \cup ({Inits[k].z2 : k \in 1..NI} \ {"0"})
Tags == {Inits[k].t : k \in 1..NI}

\* next[s][t] / stag[s][t]: index of the last init() call for (s,t)
OpenIx == [s \in States |->
             LET K == {k \in 1..NI : Inits[k].s = s}
             IN  [t \in {Inits[k].t : k \in K} |-> LastOf({k \in K : Inits[k].t = t})]]
\* after[z]
AfterTab == [z \in States |->
               LET K == {k \in 1..NI : EffZ(Inits[k]) = z \/ Inits[k].z2 = z}
               IN  IF K = {} THEN "s_error" ELSE EffA(Inits[LastOf(K)])]
\* data[n]: "white_spaces" unless an init() with that next-state gave a handler
DataTab == [n \in States |->
              LET K == {k \in 1..NI : Inits[k].n = n /\ Inits[k].dh # "0"}
              IN  IF K = {} THEN "white_spaces" ELSE Inits[LastOf(K)].dh]
\* etag[z]: if (e_) etag[z] = e_;  if (z2) etag[z2] = e_  (unconditionally: may store a null pointer)
EtagTab == [z \in States |->
              LET K == {k \in 1..NI : (EffZ(Inits[k]) = z /\ Inits[k].eh # "0") \/ Inits[k].z2 = z}
              IN  IF K = {} THEN "end_tag"
                  ELSE LET i == Inits[LastOf(K)]
                       IN  IF i.z2 = z /\ ~(EffZ(i) = z /\ i.eh # "0") THEN (IF i.eh = "0" THEN "NULL" ELSE i.eh) ELSE i.eh]

\* ---- static consistency of the table: two init() calls must not disagree about one slot
AfterConsistent == \A j, k \in 1..NI :
    (j < k /\ (EffZ(Inits[j]) = EffZ(Inits[k]) \/ Inits[j].z2 = EffZ(Inits[k]) \/ (Inits[k].z2 # "0" /\ EffZ(Inits[j]) = Inits[k].z2)))
        => EffA(Inits[j]) = EffA(Inits[k])
OpenConsistent == \A j, k \in 1..NI : (j < k /\ Inits[j].s = Inits[k].s /\ Inits[j].t = Inits[k].t) => Inits[j].n = Inits[k].n
NoStateZero == \A k \in 1..NI : Inits[k].n # "s_error" /\ EffZ(Inits[k]) # "s_error" /\ Inits[k].s # "s_error"
\* with no init() touching state 0, every slot of its rows keeps the constructor's default: s_error is absorbing for Open and Close
ErrorRowEmpty == AfterTab["s_error"] = "s_error" /\ DOMAIN OpenIx["s_error"] = {} /\ DataTab["s_error"] = "white_spaces" /\ EtagTab["s_error"] = "end_tag"
ASSUME TableOK == PrintT(<<"TABLE", [after |-> AfterConsistent, open |-> OpenConsistent, nozero |-> NoStateZero, errorrow |-> ErrorRowEmpty]>>)

\* ---- CoreParser::error(): only the first error is stored; it sets state = 0
ErrState(cur) == IF err THEN cur ELSE "s_error"
Tick == nerr' = IF err \/ err' THEN nerr + 1 ELSE 0

Init == st = "s_start" /\ stack = <<>> /\ err = FALSE /\ out = "run" /\ nerr = 0 /\ ev = [k |-> "init"]

Running == out = "run"
RootClosed == stack = <<>> /\ ev.k # "init"        \* expat: exactly one root element

\* <t ...> ; attr: the tag carries an attribute other than xmlns
Open(t, attr) ==
    /\ Running /\ ~RootClosed /\ Len(stack) < MaxDepth
    /\ LET known == t \in DOMAIN OpenIx[st]
           ix    == OpenIx[st][t]
       IN  /\ IF ~known
                 THEN \* stag = parser_error -> error()
                      /\ st' = ErrState(st) /\ err' = TRUE
                      /\ stack' = <<[t |-> t, a |-> "none"]>> \o stack
                 ELSE IF attr
                 THEN \* no_attributes() -> error(); then state = next[state][t] with the state error() left
                      /\ st' = (IF err THEN Inits[ix].n ELSE "s_error") /\ err' = TRUE
                      /\ stack' = <<[t |-> t, a |-> IF err THEN EffA(Inits[ix]) ELSE "none"]>> \o stack
                 ELSE /\ st' = Inits[ix].n /\ err' = err
                      /\ stack' = <<[t |-> t, a |-> EffA(Inits[ix])]>> \o stack
    /\ out' = out /\ Tick
    /\ ev' = [k |-> "open", t |-> t, attr |-> attr]

\* a tag tag() does not know: error() from tag(), then parser_error
OpenUnknown ==
    /\ Running /\ ~RootClosed /\ Len(stack) < MaxDepth
    /\ st' = ErrState(st) /\ err' = TRUE
    /\ stack' = <<[t |-> "t_unknown", a |-> "none"]>> \o stack
    /\ out' = out /\ Tick
    /\ ev' = [k |-> "open", t |-> "t_unknown", attr |-> FALSE]

\* </t> ; refuse: a handler with semantic checks calls error() instead of end_tag()
Close(refuse) ==
    /\ Running /\ stack # <<>>
    /\ EtagTab[st] # "NULL"
    /\ (refuse => EtagTab[st] # "end_tag")
    /\ IF refuse
          THEN st' = ErrState(st) /\ err' = TRUE
          ELSE \* end_tag: state = after[state]; a slot init() never filled is s_error and is reported by error()
               st' = AfterTab[st] /\ err' = (err \/ AfterTab[st] = "s_error")
    /\ stack' = Tail(stack)
    /\ out' = out /\ Tick
    /\ ev' = [k |-> "close", t |-> Head(stack).t, refuse |-> refuse, from |-> st, a |-> Head(stack).a]

\* character data that is not white space; refuse: optional_stdev etc. reject the literal
Text(refuse) ==
    /\ Running /\ stack # <<>>
    /\ ev.k # "text"                      \* expat may split text; one event is enough for control
    /\ (refuse => DataTab[st] \notin {"white_spaces", "add_text"})
    /\ IF DataTab[st] = "white_spaces" \/ refuse
          THEN st' = ErrState(st) /\ err' = TRUE
          ELSE st' = st /\ err' = err
    /\ UNCHANGED <<stack, out>> /\ Tick
    /\ ev' = [k |-> "text", refuse |-> refuse]

\* BaseParser::xml_parse returns: state == 0 is inspected now, and only now
ChunkEnd ==
    /\ Running /\ ev.k \notin {"chunk", "init"}
    /\ out' = IF st = "s_error" THEN (IF err THEN "located" ELSE "unlocated") ELSE "run"
    /\ UNCHANGED <<st, stack, err>> /\ Tick
    /\ ev' = [k |-> "chunk"]

\* the final xml_parse("", 0, 1) of a well-formed document
Finish ==
    /\ Running /\ RootClosed
    /\ out' = IF st = "s_error" THEN (IF err THEN "located" ELSE "unlocated")
              ELSE IF st = "s_stop" THEN "accepted" ELSE "nostop"
    /\ UNCHANGED <<st, stack, err, nerr>>
    /\ ev' = [k |-> "finish"]

\* a tag tag() knows but next[st] has no entry for: one representative stands for all of them (same successor)
OpenInvalid ==
    /\ Running /\ ~RootClosed /\ Len(stack) < MaxDepth
    /\ st' = ErrState(st) /\ err' = TRUE
    /\ stack' = <<[t |-> "t_invalid", a |-> "none"]>> \o stack
    /\ out' = out /\ Tick
    /\ ev' = [k |-> "open", t |-> "t_invalid", attr |-> FALSE]

Next == \/ \E t \in DOMAIN OpenIx[st], attr \in BOOLEAN : Open(t, attr)
        \/ OpenInvalid
        \/ OpenUnknown
        \/ \E r \in BOOLEAN : Close(r)
        \/ \E r \in BOOLEAN : Text(r)
        \/ ChunkEnd
        \/ Finish

Spec == Init /\ [][Next]_vars

Bound == nerr <= MaxAfterErr

\* every transition of the state graph, for the replay on the real parser (ACTION_CONSTRAINT in the emitting configuration)
Snap(a, b, c, d, e, f) == [st |-> a, stack |-> b, err |-> c, out |-> d, nerr |-> e, ev |-> f]
EmitStep == PrintT("CASE " \o ToJson([u |-> Snap(st, stack, err, out, nerr, ev), v |-> Snap(st', stack', err', out', nerr', ev')]))

\* ---------------------------------------------------------------- properties
\* a refusal carries the line of an error() call (never "error on line 0" with an empty message)
Located == out # "unlocated"
\* after error() the state stays 0 until the chunk ends: no handler runs on garbage, nothing is accepted
ErrorAbsorbing == err => (st = "s_error" /\ out \notin {"accepted", "nostop"})
\* weaker, user-level form: an input in which error() was called is never accepted
ErrorNeverAccepted == err => out \notin {"accepted", "nostop"}
\* a closing tag handled without error returns where the opening init() said it would
Nesting == (ev.k = "close" /\ ~err /\ st # "s_error") => st = ev.a
\* no reachable state would call a null member-function pointer
NoNullHandler == (stack # <<>> /\ Running) => EtagTab[st] # "NULL"
\* s_stop is reached exactly when the root closes without error
StopIsRoot == /\ (st = "s_stop" => stack = <<>>)
              /\ (out = "nostop" => err)
              /\ ((RootClosed /\ ~err /\ st # "s_error") => st = "s_stop")
\* state 0 is the error state and nothing else
ZeroIsError == st = "s_error" => err
=============================================================================
