SPECIFICATION Spec
CONSTANTS MaxEvents = 9
          MaxOpenInLeaf = 1
          Keep = 1
          Seed = 0
INVARIANT Inclusion
INVARIANT ErrorHasLine
INVARIANT StopOnlyAtEnd
INVARIANT Completeness
INVARIANT Exactness
PROPERTY ErrorAbsorbing
CHECK_DEADLOCK FALSE
