SPECIFICATION Spec
CONSTANTS NU = 2
          Probs = {"p1", "p2"}
          Regs = {"ALL", "S2"}
          AllReg = "ALL"
          NoProb = "none"
          NoReg = "none"
          Fixed = FALSE
INVARIANT TypeOK
INVARIANT CacheSound
INVARIANT KindMatchesKeySpace
INVARIANT ServedCurrent
INVARIANT StageFlags
INVARIANT ExceptionRepeatable
CHECK_DEADLOCK FALSE
