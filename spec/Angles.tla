-------------------------------- MODULE Angles --------------------------------
(* Exact conversion between centesimal and sexagesimal angles (property C18).   *)
(* 1 gon = 0.9 degree = 3240 arc seconds. An angle is k units of 1e-4 gon       *)
(* (1 cc), i.e. exactly 324 k thousandths of an arc second, so its degree /     *)
(* minute / second fields at 3 decimals are integers computed here without any  *)
(* rounding; at fewer decimals p the seconds are rounded half-up (ties are not  *)
(* generated). Field ranges 0 <= min < 60, 0 <= sec < 60 hold by construction.  *)
EXTENDS Integers, Sequences, TLC, Json
CONSTANTS Keep, Seed
VARIABLE k
(* angles in cc: around every multiple of a degree / minute that rounds up, negatives, full circle *)
Specials == {0, 1, 35000, 35001, 34999, 1000000, 1234567, 3999999, 4000000, 2000000, 111111, 9259, 9260, 18519, 555556, 5555556,
             3086, 3087, 6173, 12346, 1851852, 3703704, 27778, 277778, 2777778}
Angles == Specials \cup {-a : a \in Specials} \cup {a * 7 % 4000000 : a \in Specials} \cup {(a * 13 + 5) % 4000000 : a \in Specials}
Init == k \in Angles
Next == UNCHANGED k
Spec == Init /\ [][Next]_k
Abs(x) == IF x < 0 THEN -x ELSE x
Pow10(p) == IF p = 0 THEN 1 ELSE IF p = 1 THEN 10 ELSE IF p = 2 THEN 100 ELSE 1000
(* thousandths of an arc second *)
Mas == 324 * Abs(k)
Fields(p) == LET q == Pow10(3 - p)                      \* units dropped
                 r == (Mas + (q \div 2)) \div q         \* rounded to p decimals, in 10^-p seconds
                 per == 60 * Pow10(p)
             IN [deg |-> r \div (60 * per), min |-> (r \div per) % 60, sec |-> r % per, tie |-> (q > 1 /\ Mas % q = q \div 2)]
Valid(p) == LET f == Fields(p) IN f.min >= 0 /\ f.min < 60 /\ f.sec >= 0 /\ f.sec < 60 * Pow10(p)
FieldsValid == \A p \in 0..3 : Valid(p)
Small == Abs(k) <= 4000000         \* 324 * 4e6 = 1.3e9 fits 32 bits
Emit == ((Abs(k) + Seed) % Keep = 0 /\ Small) =>
  PrintT("CASE " \o ToJson([cc |-> k, fields |-> [p \in 0..3 |-> Fields(p)]]))
=============================================================================
