SPECIFICATION Spec
CONSTANTS MaxDepth = 7
          MaxAfterErr = 2
CONSTRAINT Bound
ACTION_CONSTRAINT EmitStep
INVARIANTS Located ErrorAbsorbing ErrorNeverAccepted Nesting NoNullHandler StopIsRoot ZeroIsError
CHECK_DEADLOCK FALSE
