SPECIFICATION Spec
CONSTANTS Alg = "gso"
          Probs = {"p1", "p2"}
          Regs = {"ALL", "S1", "S2"}
          AllReg = "ALL"
          NoProb = "none"
          NoReg = "none"
          PartReg = "particular"
          FixedMinX = TRUE
INVARIANT ServedCurrent
INVARIANT SolvedMeansCurrent
INVARIANT ExcOnlyWhenBad
CHECK_DEADLOCK FALSE
