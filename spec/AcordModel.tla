----------------------------- MODULE AcordModel -----------------------------
(* Which points of a horizontal network can gama-local position when their    *)
(* approximate coordinates are omitted (property C06, "all subsets of omitted *)
(* approximate coordinates that the documented strategy can resolve").        *)
(*                                                                            *)
(* The documented strategy (doc/gama-local-adj.texi, "Approximate             *)
(* coordinates"; Acord2::execute, ApproximateCoordinates) is a monotone       *)
(* closure: a point is computed from DETERMINING ELEMENTS that point to       *)
(* points with known or previously computed coordinates                       *)
(*    outer bearing : direction from a known station whose direction set also *)
(*                    contains a known point (so its orientation is known),   *)
(*    distance      : between a known point and the computed one,             *)
(*    inner angle   : two directions measured AT the computed point to known  *)
(*                    points,                                                 *)
(* every resolved point joins the known ones and the walk is repeated; an     *)
(* inserted traverse between two known points is computed in a local system   *)
(* and transformed (AcordTraverse).                                           *)
(*                                                                            *)
(* State: the set of known points and the set of observations. The actions    *)
(* BUILD a network by the constructions of surveying practice (each adds the  *)
(* observations of one construction and the point(s) it determines), then add *)
(* further observations between arbitrary points. Closure(obs) is the         *)
(* fixpoint of the determinability rules, computed from the observations      *)
(* alone - it does not know the construction history. TLC checks              *)
(*   Determined : every constructed point is in the closure,                  *)
(*   Monotone   : an added observation never shrinks the closure,             *)
(* and emits the networks. The harness writes each network WITHOUT            *)
(* approximate coordinates of the constructed points, with point names and    *)
(* document order chosen so that neither is the construction order, and       *)
(* requires of gama-local: every point of the closure is adjusted to its true *)
(* position with zero residuals.                                              *)
(*                                                                            *)
(* The rules are one-sided: a point outside the closure may still be solved   *)
(* by gama-local (nothing is claimed about it). Geometry guards are integer   *)
(* arithmetic on the lattice coordinates: intersections under about 19 gon    *)
(* (gama rejects those under 10 or 6 gon) and resections near the danger      *)
(* circle are not claimed.                                                    *)
EXTENDS Integers, Sequences, FiniteSets, TLC, Json
CONSTANTS NP,          \* points of the universe used (4..6)
          MaxExtra,    \* observations added after the construction
          Kinds,       \* constructions enabled: subset of {"polar", "polarA", "polarZ", "inter", "interZ", "resect", "resectA", "trilat", "ddb", "fs2", "trav"}
          Keep, Seed   \* thinning of the emitted cases

(* distances are written with from < to; universe: lattice coordinates in units of 100 m *)
U == <<[e |-> 0, n |-> 0], [e |-> 10, n |-> 1], [e |-> 4, n |-> 9], [e |-> 12, n |-> 8], [e |-> 6, n |-> 4], [e |-> 1, n |-> 6]>>
Pt == 1..NP
Abs(x) == IF x < 0 THEN -x ELSE x
DE(a, b) == U[b].e - U[a].e
DN(a, b) == U[b].n - U[a].n
N2(a, b) == DE(a, b) * DE(a, b) + DN(a, b) * DN(a, b)
Cross(p, a, b) == DE(p, a) * DN(p, b) - DN(p, a) * DE(p, b)
(* the rays p->a and p->b (or their extensions) meet at p under more than about 19 gon: sin^2 >= 0.09 *)
Wide(p, a, b) == 100 * Cross(p, a, b) * Cross(p, a, b) >= 9 * N2(p, a) * N2(p, b)
InCircle(a, b, c, d) ==
  LET a1 == DE(d, a) a2 == DN(d, a) a3 == N2(d, a)
      b1 == DE(d, b) b2 == DN(d, b) b3 == N2(d, b)
      c1 == DE(d, c) c2 == DN(d, c) c3 == N2(d, c)
  IN a1 * (b2 * c3 - b3 * c2) - a2 * (b1 * c3 - b3 * c1) + a3 * (b1 * c2 - b2 * c1)
OffCircle(p, a, b, c) == Abs(InCircle(a, b, c, p)) >= 400       \* p is well off the circle through a, b, c

(* observations *)
Dir(s, t) == [t |-> "direction", from |-> s, to |-> t, to2 |-> 0]
Dist(a, b) == [t |-> "distance", from |-> a, to |-> b, to2 |-> 0]
Az(s, t) == [t |-> "azimuth", from |-> s, to |-> t, to2 |-> 0]              \* a bearing that needs no orientation (AcordAzimuth)
Ang(s, bs, fs) == [t |-> "angle", from |-> s, to |-> bs, to2 |-> fs]          \* the angle at s from the backsight bs to the foresight fs
DistU(a, b) == IF a < b THEN Dist(a, b) ELSE Dist(b, a)
AllObs == {o \in {Dir(s, t) : s \in Pt, t \in Pt} : o.from # o.to} \cup {o \in {Dist(a, b) : a \in Pt, b \in Pt} : o.from < o.to}
          \cup {o \in {Ang(s, a, b) : s \in Pt, a \in Pt, b \in Pt} : o.from # o.to /\ o.from # o.to2 /\ o.to # o.to2}

VARIABLES fixed, built, obs, hist, extra
vars == <<fixed, built, obs, hist, extra>>

HasDist(O, a, b) == Dist(a, b) \in O \/ Dist(b, a) \in O

(* ------------------------------------------------------------ determinability *)
Oriented(O, K, s) == s \in K /\ \E q \in K \ {s} : Dir(s, q) \in O
Bearing(O, K, s, p) == \/ Oriented(O, K, s) /\ Dir(s, p) \in O
                       \/ s \in K /\ \E q \in K \ {s} : Ang(s, q, p) \in O \/ Ang(s, p, q) \in O        \* an angle with one arm to a known point
                       \/ s \in K /\ Az(s, p) \in O
Inner(O, p, a, b) == (Dir(p, a) \in O /\ Dir(p, b) \in O) \/ Ang(p, a, b) \in O \/ Ang(p, b, a) \in O
Cos2(a, b, s, p) == LET d == DE(a, b) * DE(s, p) + DN(a, b) * DN(s, p) IN 100 * d * d >= 9 * N2(a, b) * N2(s, p)   \* s-p is well off the perpendicular of a-b
RPolar(O, K, p) == \E s \in K : Bearing(O, K, s, p) /\ HasDist(O, s, p)
RInter(O, K, p) == \E s1, s2 \in K : s1 < s2 /\ Bearing(O, K, s1, p) /\ Bearing(O, K, s2, p) /\ Wide(p, s1, s2)
(* three distances: two circles meet in two points that are mirror images about the line of their centres; the third centre must  *)
(* be well off that line or both images satisfy all three distances                                                           *)
Triangle(a, b, c) == Wide(a, b, c) /\ Wide(b, a, c) /\ Wide(c, a, b)
RTrilat(O, K, p) == \E a, b, c \in K : a < b /\ b < c /\ HasDist(O, a, p) /\ HasDist(O, b, p) /\ HasDist(O, c, p)
                                        /\ Triangle(a, b, c) /\ Wide(p, a, b) /\ Wide(p, a, c) /\ Wide(p, b, c)
RResect(O, K, p) == \E a, b, c \in K : /\ Cardinality({a, b, c}) = 3 /\ Inner(O, p, a, b) /\ Inner(O, p, b, c)
                                        /\ OffCircle(p, a, b, c) /\ Wide(p, a, b) /\ Wide(p, a, c) /\ Wide(p, b, c)
(* two distances and an outer bearing from a third point: the bearing picks one of the two mirror images *)
RDdb(O, K, p) == \E a, b, s \in K : /\ a < b /\ s \notin {a, b} /\ HasDist(O, a, p) /\ HasDist(O, b, p) /\ Bearing(O, K, s, p)
                                     /\ Wide(p, a, b) /\ Wide(p, s, a) /\ Wide(p, s, b) /\ Cos2(a, b, s, p)
(* inserted traverse a - p - q - b between known a, b: all three distances, the angles at p and q as directions *)
TravObs(a, p, q, b) == {DistU(a, p), DistU(p, q), DistU(q, b), Dir(p, a), Dir(p, q), Dir(q, p), Dir(q, b)}
RTrav(O, K, p) == \E a, b \in K, q \in Pt \ (K \cup {p}) : a # b /\ (TravObs(a, p, q, b) \subseteq O \/ TravObs(a, q, p, b) \subseteq O)
                                                           /\ Wide(p, a, q) /\ Wide(q, p, b)
(* free station: directions and distances from the new point to two known points; the sense of the inner angle picks one of the two mirror images *)
RFs2(O, K, p) == \E a, b \in K : a < b /\ Inner(O, p, a, b) /\ HasDist(O, a, p) /\ HasDist(O, b, p) /\ Wide(p, a, b)
Solvable(O, K, p) == RFs2(O, K, p) \/ RPolar(O, K, p) \/ RInter(O, K, p) \/ RTrilat(O, K, p) \/ RResect(O, K, p) \/ RTrav(O, K, p) \/ RDdb(O, K, p)
RECURSIVE Grow(_, _)
Grow(O, K) == LET K2 == K \cup {p \in Pt \ K : Solvable(O, K, p)} IN IF K2 = K THEN K ELSE Grow(O, K2)
Closure == Grow(obs, fixed)

(* --------------------------------------------------------------- construction *)
Init == /\ fixed \in {F \in SUBSET Pt : Cardinality(F) \in {2, 3}}
        /\ built = {} /\ obs = {} /\ hist = <<>> /\ extra = 0
Known == fixed \cup built
Step(kind, ps, O) == /\ built' = built \cup ps /\ obs' = obs \cup O
                     /\ hist' = Append(hist, [k |-> kind, p |-> ps])
                     /\ UNCHANGED <<fixed, extra>>
Polar == "polar" \in Kinds /\ extra = 0 /\
         \E p \in Pt \ Known, s \in Known : \E q \in Known \ {s} :
            Step("polar", {p}, {Dir(s, q), Dir(s, p), DistU(s, p)})
PolarA == "polarA" \in Kinds /\ extra = 0 /\
          \E p \in Pt \ Known, s \in Known : \E q \in Known \ {s} : Step("polarA", {p}, {Ang(s, q, p), DistU(s, p)})
Inter == "inter" \in Kinds /\ extra = 0 /\
         \E p \in Pt \ Known, s1, s2 \in Known : /\ s1 < s2 /\ Wide(p, s1, s2)
            /\ \E q1 \in Known \ {s1}, q2 \in Known \ {s2} : Step("inter", {p}, {Dir(s1, q1), Dir(s1, p), Dir(s2, q2), Dir(s2, p)})
Trilat == "trilat" \in Kinds /\ extra = 0 /\
          \E p \in Pt \ Known, a, b, c \in Known : /\ a < b /\ b < c /\ Triangle(a, b, c) /\ Wide(p, a, b) /\ Wide(p, a, c) /\ Wide(p, b, c)
            /\ Step("trilat", {p}, {DistU(x, p) : x \in {a, b, c}})
Resect == "resect" \in Kinds /\ extra = 0 /\
          \E p \in Pt \ Known, a, b, c \in Known : /\ a < b /\ b < c /\ OffCircle(p, a, b, c) /\ Wide(p, a, b) /\ Wide(p, a, c) /\ Wide(p, b, c)
            /\ Step("resect", {p}, {Dir(p, a), Dir(p, b), Dir(p, c)})
PolarZ == "polarZ" \in Kinds /\ extra = 0 /\
          \E p \in Pt \ Known, s \in Known : Step("polarZ", {p}, {Az(s, p), DistU(s, p)})
InterZ == "interZ" \in Kinds /\ extra = 0 /\
          \E p \in Pt \ Known, s1, s2 \in Known : /\ s1 # s2 /\ Wide(p, s1, s2)
            /\ \E q2 \in Known \ {s2} : Step("interZ", {p}, {Az(s1, p), Dir(s2, q2), Dir(s2, p)})          \* an azimuth and an oriented direction
Fs2 == "fs2" \in Kinds /\ extra = 0 /\
       \E p \in Pt \ Known, a, b \in Known : /\ a < b /\ Wide(p, a, b)
         /\ Step("fs2", {p}, {Dir(p, a), Dir(p, b), DistU(a, p), DistU(b, p)})
ResectA == "resectA" \in Kinds /\ extra = 0 /\
           \E p \in Pt \ Known, a, b, c \in Known : /\ a < b /\ b < c /\ OffCircle(p, a, b, c) /\ Wide(p, a, b) /\ Wide(p, a, c) /\ Wide(p, b, c)
             /\ Step("resectA", {p}, {Ang(p, a, b), Ang(p, b, c)})
Ddb == "ddb" \in Kinds /\ extra = 0 /\
       \E p \in Pt \ Known, a, b, s \in Known : /\ a < b /\ s \notin {a, b} /\ Wide(p, a, b) /\ Wide(p, s, a) /\ Wide(p, s, b) /\ Cos2(a, b, s, p)
         /\ \E q \in Known \ {s} : Step("ddb", {p}, {DistU(a, p), DistU(b, p), Dir(s, q), Dir(s, p)})
Trav == "trav" \in Kinds /\ extra = 0 /\
        \E p \in Pt \ Known, a, b \in Known : \E q \in Pt \ (Known \cup {p}) :
            /\ a # b /\ Wide(p, a, q) /\ Wide(q, p, b)
            /\ Step("trav", {p, q}, TravObs(a, p, q, b))
(* further consistent observations between arbitrary points, in increasing order so that a set is generated once *)
Code(o) == (IF o.t = "direction" THEN 0 ELSE IF o.t = "distance" THEN 100 ELSE IF o.t = "azimuth" THEN 900 ELSE 200 + 100 * o.to2) + o.from * 10 + o.to
Extra == /\ built # {} /\ extra < MaxExtra
         /\ \E o \in AllObs \ obs : /\ (o.from \in Known /\ o.to \in Known /\ (o.to2 = 0 \/ o.to2 \in Known))
                                    /\ (extra > 0 => Code(o) > Code(hist[Len(hist)].o))
                                    /\ obs' = obs \cup {o} /\ extra' = extra + 1
                                    /\ hist' = Append(hist, [k |-> "extra", o |-> o])
                                    /\ UNCHANGED <<fixed, built>>
Next == Fs2 \/ Polar \/ PolarA \/ PolarZ \/ InterZ \/ Inter \/ Trilat \/ Resect \/ ResectA \/ Ddb \/ Trav \/ Extra
Spec == Init /\ [][Next]_vars

(* ------------------------------------------------------------------ properties *)
Determined == Known \subseteq Closure
Monotone == [][Grow(obs, fixed) \subseteq Grow(obs', fixed')]_vars

(* --------------------------------------------------------------------- emission *)
RECURSIVE HashSet(_)
HashSet(S) == IF S = {} THEN 0 ELSE LET o == CHOOSE x \in S : \A y \in S : Code(x) <= Code(y) IN (Code(o) * 7 + 3 * HashSet(S \ {o})) % 100003
SetToSeq(S) == LET RECURSIVE f(_) f(T) == IF T = {} THEN <<>> ELSE LET o == CHOOSE x \in T : \A y \in T : Code(x) <= Code(y) IN <<o>> \o f(T \ {o}) IN f(S)
SortedPts(S) == IF S = {} THEN <<>> ELSE CHOOSE s \in [1..Cardinality(S) -> S] : \A a, b \in 1..Cardinality(S) : a < b => s[a] < s[b]
Case == [fixed |-> SortedPts(fixed), built |-> SortedPts(built), closure |-> SortedPts(Closure),
         pts |-> [i \in Pt |-> U[i]], obs |-> SetToSeq(obs), hist |-> [i \in 1..Len(hist) |-> hist[i].k], extra |-> extra,
         travpts |-> SortedPts(UNION {hist[i].p : i \in {j \in 1..Len(hist) : hist[j].k = "trav"}})]
Emit == (built # {} /\ (HashSet(obs) + 13 * Cardinality(fixed) + Seed) % Keep = 0) => PrintT("CASE " \o ToJson(Case))
=============================================================================
