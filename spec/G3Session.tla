------------------------------- MODULE G3Session -------------------------------
(* gama-g3 as its users see it (property C19): a network of points given by      *)
(* geocentric coordinates with GNSS vectors between them. A network is built     *)
(* from: a place on the ellipsoid (the harness turns it into the integer-metre   *)
(* ECEF base point), integer offsets of the points from the base (metres), a     *)
(* spanning set of vectors plus optional redundant ones, the status of the       *)
(* points (fixed / free / constrained in n, e, u), a covariance variant for the  *)
(* 3x3 vector blocks, a noise pattern and the order of the input records.        *)
(* Laws: Truth (noise 0: adjusted = generating coordinates), SetAlgorithm and    *)
(* PermuteRecords change nothing, redundancy = equations - parameters + defect   *)
(* with defect = 0 when a fixed point exists and 3 for a constrained-only        *)
(* network (translations), and the project-equation dump adjusted by the         *)
(* general class Adj gives the same corrections.                                 *)
EXTENDS Integers, Sequences, FiniteSets, TLC, Json
CONSTANTS Keep, Seed
Places == {"equator", "midlat", "nearpole", "south", "antimeridian"}
(* offsets (east-ish, north-ish, up-ish are irrelevant: plain ECEF metres) *)
Pts == << <<0, 0, 0>>, <<8000, -3000, 1200>>, <<-5000, 6000, -2500>>, <<2500, 9000, 4000>>, <<-7000, -6500, 900>> >>
Edges == << <<1, 2>>, <<1, 3>>, <<2, 4>>, <<3, 5>>,        \* spanning tree over 5 points
            <<2, 3>>, <<4, 5>>, <<1, 4>>, <<5, 2>> >>      \* redundant vectors
VARIABLE net
Init == net = [k |-> 0]
Choose == /\ net.k = 0
          /\ \E np \in 3..5, place \in Places, extra \in SUBSET (5..8), status \in {"fix1", "fix2", "constr"}, cov \in 0..2, noise \in 0..2, perm \in 0..3 :
               /\ \A e \in extra : Edges[e][1] <= np /\ Edges[e][2] <= np
               /\ ((np * 7 + Len(place) * 3 + Cardinality(extra) * 11 + cov * 5 + noise * 13 + perm * 17 + Len(status) + Seed) % Keep = 0)
               /\ net' = [k |-> 1, np |-> np, place |-> place,
                          vectors |-> [i \in 1..(np - 1) |-> Edges[i]] \o
                                      [i \in 1..Cardinality(extra) |-> Edges[CHOOSE e \in extra : Cardinality({x \in extra : x < e}) = i - 1]],
                          status |-> status, cov |-> cov, noise |-> noise, perm |-> perm,
                          offsets |-> [i \in 1..np |-> Pts[i]],
                          parameters |-> 3 * (np - (IF status = "fix1" THEN 1 ELSE IF status = "fix2" THEN 2 ELSE 0)),
                          equations |-> 3 * ((np - 1) + Cardinality(extra)),
                          defect |-> IF status = "constr" THEN 3 ELSE 0]
Next == Choose
Spec == Init /\ [][Next]_net
Emit == net.k = 1 => PrintT("CASE " \o ToJson(net @@ [redundancy |-> net.equations - net.parameters + net.defect]))
=============================================================================
