------------------------------- MODULE G3Session -------------------------------
(* gama-g3 as its users see it (property C19): a network of points given by      *)
(* geocentric coordinates with GNSS vectors, distances, ellipsoidal heights and  *)
(* height differences between them. A network is built from: a place on the      *)
(* ellipsoid (the harness turns it into the integer-metre ECEF base point),      *)
(* integer offsets of the points from the base (metres), a spanning set of       *)
(* vectors plus optional redundant ones, optional distances (directed: from, to),*)
(* heights, height differences, zenith angles, horizontal angles (also above     *)
(* half a circle) and observed coordinates, a status pattern (every point has a  *)
(* status of its horizontal position n,e and one of its height u: fixed / free / *)
(* constrained), a covariance variant for the 3x3 vector blocks, a noise         *)
(* pattern, a displacement pattern of the given coordinates of the adjusted      *)
(* components, instrument / target heights of distances and zenith angles,       *)
(* antenna heights given with some of the vectors only, and the order of the     *)
(* input records.                                                                *)
(* Laws: Truth (noise 0: adjusted = generating coordinates whatever the given    *)
(* coordinates of the adjusted components are), SetAlgorithm and PermuteRecords  *)
(* change nothing, parameters = number of components that are not fixed,         *)
(* equations = 3 vectors + distances + heights + height differences + zenith     *)
(* angles + angles + 3 observed points,                                          *)
(* redundancy = equations - parameters + defect with defect = 3 for a            *)
(* constrained-only network (translations) and 0 as soon as fixed components or  *)
(* observed heights remove the three translations, and the project-equation dump *)
(* adjusted by the general class Adj gives the same corrections. A vector that   *)
(* is wrong by metres is rejected: the rest of the network is adjusted as if it  *)
(* had not been observed, a point tied by nothing else drops out.                *)
EXTENDS Integers, Sequences, FiniteSets, TLC, Json
CONSTANTS Keep, Keep2, Seed
Places == {"equator", "midlat", "nearpole", "south", "antimeridian"}
(* offsets (east-ish, north-ish, up-ish are irrelevant: plain ECEF metres) *)
Pts == << <<0, 0, 0>>, <<8000, -3000, 1200>>, <<-5000, 6000, -2500>>, <<2500, 9000, 4000>>, <<-7000, -6500, 900>> >>
Edges == << <<1, 2>>, <<1, 3>>, <<2, 4>>, <<3, 5>>,        \* spanning tree over 5 points
            <<2, 3>>, <<4, 5>>, <<1, 4>>, <<5, 2>> >>      \* redundant vectors
(* status patterns: point index -> << status of n,e ; status of u >> *)
FF == <<"free", "free">>
Status(p, i) ==
  CASE p = "fix1"   -> IF i = 1 THEN <<"fixed", "fixed">> ELSE FF
    [] p = "fix2"   -> IF i <= 2 THEN <<"fixed", "fixed">> ELSE FF
    [] p = "constr" -> <<"constr", "constr">>
    [] p = "pconstr" -> IF i <= 2 THEN <<"constr", "constr">> ELSE FF      \* a free network whose datum is carried by two of its points only
    [] p = "split"  -> IF i = 1 THEN <<"fixed", "free">> ELSE IF i = 2 THEN <<"free", "fixed">> ELSE FF
    [] p = "mixed"  -> IF i = 1 THEN <<"fixed", "fixed">> ELSE IF i = 2 THEN <<"free", "fixed">> ELSE IF i = 3 THEN <<"constr", "free">> ELSE <<"free", "constr">>
    [] p = "hfix"   -> IF i = 1 THEN <<"fixed", "free">> ELSE FF        \* the heights must come from observed heights
    [] OTHER        -> FF                                               \* "xyzdatum": the datum comes from observed coordinates
Patterns == {"fix1", "fix2", "constr", "pconstr", "split", "mixed", "hfix", "xyzdatum"}
DistSets == << <<>>, << <<1, 2>>, <<3, 2>> >>, << <<2, 1>>, <<2, 3>>, <<3, 1>> >> >>
HeightSets == << <<>>, <<1>>, <<2, 3>> >>
HdiffSets == << <<>>, << <<1, 2>>, <<2, 3>> >> >>
ZenSets == << <<>>, << <<1, 2>>, <<2, 3>>, <<3, 1>> >> >>
AngSets == << <<>>, << <<1, 3, 2>>, <<2, 1, 3>> >>, << <<1, 2, 3>>, <<3, 2, 1>>, <<2, 3, 1>> >> >>      \* the third set has angles above and below half a circle
XyzSets == << <<>>, <<2>>, <<1, 3>> >>
ExtraSets == { {}, {5}, {7}, {5, 6}, {6, 7, 8}, {5, 6, 7, 8} }
NonFixed(p, np) == 2 * Cardinality({i \in 1..np : Status(p, i)[1] # "fixed"}) + Cardinality({i \in 1..np : Status(p, i)[2] # "fixed"})
VARIABLE net
Init == net = [k |-> 0]
Choose == /\ net.k = 0
          /\ \E np \in 3..5, place \in Places, extra \in ExtraSets, status \in Patterns, cov \in 0..2 :
               /\ \A e \in extra : Edges[e][1] <= np /\ Edges[e][2] <= np
               /\ ((np * 7 + Len(place) * 3 + Cardinality(extra) * 11 + cov * 5 + Len(status) * 19 + Seed) % Keep = 0)
               /\ \E noise \in 0..2, perm \in 0..3, ds \in 1..3, hs \in 1..3, dh \in 1..2, displ \in 0..1, zs \in 1..2, as \in 1..3, xs \in 1..3, idh \in 0..1, gross \in 0..2, vdh \in 0..2 :
                    /\ (status = "xyzdatum" <=> xs > 1)
                    /\ (status = "hfix" => hs > 1)                  \* without observed heights the translation along the vertical stays free
                    /\ (status = "constr" => displ = 0)
                    /\ (status \in {"constr", "pconstr"} => hs = 1 /\ dh = 1 /\ zs = 1 /\ as = 1 /\ vdh = 0)
                         \* the datum of a constrained network is its given coordinates; ellipsoidal heights, height differences and
                         \* angles referred to the local vertical depend (weakly) on the position and would change the defect
                    /\ ((noise * 13 + perm * 17 + ds * 23 + hs * 29 + dh * 31 + displ * 37 + zs * 41 + as * 43 + xs * 53 + idh * 59 + vdh * 61 + np + cov + Seed) % Keep2 = 0 \/ gross > 0
                          \/ (status = "pconstr" /\ noise = 0 /\ ds = 1 /\ xs = 1 /\ idh = 0 /\ perm = 0))      \* always generated
                    /\ (idh = 1 => ds > 1 \/ zs > 1)
                    /\ (vdh > 0 => gross = 0)
                         \* vdh: antenna heights on vectors. 1: every odd vector carries <from-dh> and <to-dh>, the even ones none;
                         \* 2: the first vector carries only <to-dh>, the third only <from-dh>. A height given with one vector belongs
                         \* to that vector alone, whatever record follows it
                    /\ (gross > 0 => noise = 0 /\ status \in {"fix1", "fix2"} /\ displ = 0 /\ ds = 1 /\ hs = 1 /\ dh = 1 /\ zs = 1 /\ as = 1 /\ idh = 0)
                    /\ (gross = 1 => extra # {})            \* a redundant vector is gross: it is rejected, the rest reproduces the network
                    /\ (gross = 2 => extra = {} /\ (status = "fix2" => np >= 4))   \* the vector that alone ties the last point is gross: the point drops out, others remain
                    /\ net' = [k |-> 1, np |-> np, place |-> place,
                               vectors |-> [i \in 1..(np - 1) |-> Edges[i]] \o
                                           [i \in 1..Cardinality(extra) |-> Edges[CHOOSE e \in extra : Cardinality({x \in extra : x < e}) = i - 1]],
                               dists |-> DistSets[ds], heights |-> HeightSets[hs], hdiffs |-> HdiffSets[dh],
                               zeniths |-> ZenSets[zs], angles |-> AngSets[as], xyzobs |-> XyzSets[xs],
                               status |-> status, pstat |-> [i \in 1..np |-> Status(status, i)], displ |-> displ,
                               cov |-> cov, noise |-> noise, perm |-> perm, idh |-> idh, gross |-> gross, vdh |-> vdh,
                               offsets |-> [i \in 1..np |-> Pts[i]],
                               parameters |-> NonFixed(status, np) - (IF gross = 2 THEN 3 ELSE 0),
                               dropped |-> IF gross = 2 THEN np ELSE 0,             \* the point whose only tie is rejected has no unknowns left
                               equations |-> 3 * ((np - 1) + Cardinality(extra)) - (IF gross > 0 THEN 3 ELSE 0) + Len(DistSets[ds]) + Len(HeightSets[hs]) + Len(HdiffSets[dh])
                                             + Len(ZenSets[zs]) + Len(AngSets[as]) + 3 * Len(XyzSets[xs]),
                               defect |-> IF status \in {"constr", "pconstr"} THEN 3 ELSE 0]
Next == Choose
Spec == Init /\ [][Next]_net
Emit == net.k = 1 => PrintT("CASE " \o ToJson(net @@ [redundancy |-> net.equations - net.parameters + net.defect]))
=============================================================================
