----------------------------- MODULE MatVecObjects -----------------------------
(* Value semantics of the matvec containers (property C15, life-cycle half).    *)
(* Three objects of one container kind; an object is a record [r, c, v] with    *)
(* v the tuple of its r*c elements (row major). Every action of the C++ API     *)
(* that creates, copies, moves, resets or writes an object is an action here.   *)
(* The model has value semantics by construction: an assignment copies the      *)
(* tuple. The implementation refines it iff after every step every object       *)
(* holds the model's dimensions and elements (ValueSemantics) - i.e. copies     *)
(* are independent of their source whatever the sizes involved - and a moved    *)
(* from object is empty. The harness replays every emitted behaviour on Vec,    *)
(* Mat and SymMat under ASan and compares the projection after each step.       *)
EXTENDS Integers, Sequences, FiniteSets, TLC, Json
CONSTANTS MaxSteps, Keep, Seed
Objs == 1..3
Dims == {<<0, 0>>, <<1, 2>>, <<2, 2>>}
VARIABLES obj, hist
vars == <<obj, hist>>
Fill(r, c, s) == [k \in 1..(r * c) |-> s * 10 + k]
Empty == [r |-> 0, c |-> 0, v |-> <<>>, u |-> FALSE]
(* u = TRUE: moved-from object, its state is unspecified (C++: valid but unspecified) until it is written as a whole *)
Unspec == [r |-> 0, c |-> 0, v |-> <<>>, u |-> TRUE]
Init == obj = [o \in Objs |-> Empty] /\ hist = <<>>
Step(a) == hist' = Append(hist, a @@ ("st" :> obj'))     \* every step carries the expected state of all objects

(* o = Container(r, c) filled with recognisable values *)
Construct(o, d, s) == /\ obj' = [obj EXCEPT ![o] = [r |-> d[1], c |-> d[2], v |-> Fill(d[1], d[2], s), u |-> FALSE]]
                      /\ Step([a |-> "construct", o |-> o, r |-> d[1], c |-> d[2], s |-> s])
(* o = p  (copy assignment, sizes may differ) *)
Assign(o, p) == /\ o # p /\ ~obj[p].u /\ obj' = [obj EXCEPT ![o] = obj[p]] /\ Step([a |-> "assign", o |-> o, p |-> p])
(* Container tmp(p); o = std::move(tmp)  (copy construction followed by move assignment) *)
CopyMove(o, p) == /\ o # p /\ ~obj[p].u /\ obj' = [obj EXCEPT ![o] = obj[p]] /\ Step([a |-> "copymove", o |-> o, p |-> p])
(* o = std::move(p): p is left empty *)
Move(o, p) == /\ o # p /\ ~obj[p].u /\ obj' = [obj EXCEPT ![o] = obj[p], ![p] = Unspec] /\ Step([a |-> "move", o |-> o, p |-> p])
(* o = o (self assignment) *)
SelfAssign(o) == /\ ~obj[o].u /\ obj' = obj /\ Step([a |-> "selfassign", o |-> o])
(* o(k) = val *)
SetElem(o, k, val) == /\ ~obj[o].u /\ k <= Len(obj[o].v) /\ obj' = [obj EXCEPT ![o].v[k] = val] /\ Step([a |-> "set", o |-> o, k |-> k, val |-> val])
(* o.reset(r, c) followed by filling *)
Reset(o, d, s) == /\ obj' = [obj EXCEPT ![o] = [r |-> d[1], c |-> d[2], v |-> Fill(d[1], d[2], s), u |-> FALSE]]
                  /\ Step([a |-> "reset", o |-> o, r |-> d[1], c |-> d[2], s |-> s])

Next == /\ Len(hist) < MaxSteps
        /\ \/ \E o \in Objs, d \in Dims, s \in {1, 2} : Construct(o, d, s) \/ Reset(o, d, s + 2)
           \/ \E o, p \in Objs : Assign(o, p) \/ CopyMove(o, p) \/ Move(o, p)
           \/ \E o \in Objs : SelfAssign(o)
           \/ \E o \in Objs, k \in 1..4 : SetElem(o, k, 99)
Spec == Init /\ [][Next]_vars

(* no two objects ever alias: writing one never changes another (true by construction here) *)
Independent == [][\A o \in Objs : (\E k \in 1..4 : SetElem(o, k, 99)) => \A p \in Objs \ {o} : obj'[p] = obj[p]]_vars
RECURSIVE H(_, _)
H(h, k) == IF k = 0 THEN 0 ELSE (Len(h[k].a) * 3 + h[k].o * 5 + (IF "p" \in DOMAIN h[k] THEN h[k].p * 7 ELSE 0) + (IF "r" \in DOMAIN h[k] THEN h[k].r * 11 + h[k].c * 13 ELSE 0)) * (2 * k + 1) + H(h, k - 1)
Emit == (Len(hist) = MaxSteps /\ (H(hist, Len(hist)) + Seed) % Keep = 0) =>
          PrintT("CASE " \o ToJson([hist |-> hist, final |-> obj]))
=============================================================================
