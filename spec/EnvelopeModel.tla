--------------------------- MODULE EnvelopeModel ---------------------------
(* Refinement model of GNU_gama::AdjEnvelope (lib/gnu_gama/adj/adj_envelope.h). *)
(* One action per public method, written the way the code is: lazily staged     *)
(* computation (stage), four dirty flags, the regularisation list and the       *)
(* three-slot move-to-front cache shared by q_xx (lower-solved rows of T, keyed *)
(* by the index of the unknown) and q0_xx (columns of the inverse, keyed by     *)
(* minus the permuted index).                                                   *)
(*                                                                              *)
(* Ghost state records FOR WHICH input (prob) and regularisation (reg) every    *)
(* stored artefact was computed. The abstract contract AdjSolverAPI (an answer  *)
(* depends only on the current input, the current regularisation and the        *)
(* question) is refined iff every artefact that is served is tagged with the    *)
(* current (prob, reg): invariants CacheSound, ServedCurrent.                   *)
(*                                                                              *)
(* Problem-dependent facts (nullity, which pairs lie inside the envelope, which *)
(* regularisations are bad) are not computed here: in model-checking mode they  *)
(* are chosen nondeterministically but consistently (fixed per problem in       *)
(* facts), in trace mode they are bound from the log.                           *)
EXTENDS Integers, Sequences, FiniteSets, TLC

CONSTANTS NU,          \* number of unknowns (indices 1..NU)
          Probs,       \* problem identifiers
          Regs,        \* regularisation identifiers; AllReg is among them
          AllReg,      \* the identifier of "all unknowns" (min_x() without arguments)
          NoProb, NoReg,   \* values meaning "no input" / "no regularisation" (of the same sort as Probs / Regs)
          NoProb, NoReg,   \* values meaning "no input" / "no regularisation" (of the same sort as Probs / Regs)
          Fixed        \* TRUE: code with the two cache fixes; FALSE: code before them

VARIABLES stage, ix, iq0, ires, iqbb, keys, minNull,   \* projected implementation state
          bufOK,                                       \* qxxbuf vectors have dimension n
          prob, reg,                                   \* ghost: current input / regularisation
          ctag,                                        \* ghost: tags of the cache entries (parallel to keys)
          xtag, rtag, q0tag, ftag,                     \* ghost: tags of x, resid, q0, factorisation
          facts,                                       \* ghost: per problem [nullity, bad (set of regs)]
          served                                       \* ghost: what the last query handed out

vars == <<stage, ix, iq0, ires, iqbb, keys, minNull, bufOK, prob, reg, ctag, xtag, rtag, q0tag, ftag, facts, served>>

NoTag == [p |-> NoProb, r |-> NoReg]
Tag(p, r) == [p |-> p, r |-> r]
Range(s) == {s[i] : i \in 1..Len(s)}
Pos(s, k) == CHOOSE i \in 1..Len(s) : s[i] = k
Remove(s, i) == [j \in 1..(Len(s) - 1) |-> IF j < i THEN s[j] ELSE s[j + 1]]

Nullity == facts[prob].nullity
BadReg == reg \in facts[prob].bad /\ Nullity > 0

(* ---- MoveToFront<3> on (keys, ctag); a miss stores a freshly computed artefact ---- *)
CacheGet(ks, ts, k, newtag) ==
  IF k \in Range(ks)
  THEN LET i == Pos(ks, k) IN [keys |-> <<k>> \o Remove(ks, i), tags |-> <<ts[i]>> \o Remove(ts, i), hit |-> TRUE, tag |-> ts[i]]
  ELSE IF Len(ks) < 3
       THEN [keys |-> <<k>> \o ks, tags |-> <<newtag>> \o ts, hit |-> FALSE, tag |-> newtag]
       ELSE [keys |-> <<k>> \o SubSeq(ks, 1, 2), tags |-> <<newtag>> \o SubSeq(ts, 1, 2), hit |-> FALSE, tag |-> newtag]

(* ---- internal steps as state functions: st is a record of the mutable fields ---- *)
Cur == [stage |-> stage, ix |-> ix, iq0 |-> iq0, ires |-> ires, iqbb |-> iqbb, bufOK |-> bufOK,
        ftag |-> ftag, q0tag |-> q0tag]

(* set_stage(s): s in {init, ordering, x0} raises all flags, s = q0 only init_q_bb *)
SetStage(st, s) == IF s < 3 THEN [st EXCEPT !.stage = s, !.ix = TRUE, !.iq0 = TRUE, !.ires = TRUE, !.iqbb = TRUE]
                   ELSE [st EXCEPT !.stage = s, !.iqbb = TRUE]

SolveX0(st) == IF st.stage >= 2 THEN st
               ELSE LET a == SetStage(st, 2) IN
                    [a EXCEPT !.ftag = Tag(prob, NoReg), !.bufOK = (st.bufOK \/ Nullity > 0)]

SolveQ0(st) == IF st.iq0
               THEN LET a == SolveX0(st) IN
                    SetStage([a EXCEPT !.iq0 = FALSE, !.q0tag = Tag(prob, NoReg)], 3)
               ELSE st

EnsureQ0(st) == IF st.stage < 3 THEN SolveQ0(st) ELSE st

Commit(st) == /\ stage' = st.stage /\ ix' = st.ix /\ iq0' = st.iq0 /\ ires' = st.ires /\ iqbb' = st.iqbb
              /\ bufOK' = st.bufOK /\ ftag' = st.ftag /\ q0tag' = st.q0tag

(* ---- Init / Reset ---- *)
FactSpace == [nullity : 0..1, bad : SUBSET (Regs \ {AllReg, "S1"})]      \* AllReg and "S1" always resolve the defect

Init == /\ stage = 0 /\ ix = TRUE /\ iq0 = TRUE /\ ires = TRUE /\ iqbb = TRUE
        /\ keys = <<>> /\ ctag = <<>> /\ minNull = TRUE /\ bufOK = FALSE
        /\ prob \in Probs /\ reg = AllReg
        /\ xtag = NoTag /\ rtag = NoTag /\ q0tag = NoTag /\ ftag = NoTag
        /\ facts \in [Probs -> FactSpace]
        /\ served = [kind |-> "none", tag |-> NoTag]

Reset(p) ==
  /\ prob' = p
  /\ keys' = <<>> /\ ctag' = <<>>
  /\ stage' = 0 /\ ix' = TRUE /\ iq0' = TRUE /\ ires' = TRUE /\ iqbb' = TRUE
  /\ bufOK' = FALSE
  /\ served' = [kind |-> "none", tag |-> NoTag]
  /\ UNCHANGED <<minNull, reg, xtag, rtag, q0tag, ftag, facts>>

(* min_x() / min_x(n, list): new regularisation, x invalid; the fixed code also drops the cache *)
MinX(r) ==
  /\ reg' = r
  /\ minNull' = (r = AllReg)
  /\ ix' = TRUE
  /\ IF Fixed THEN keys' = <<>> /\ ctag' = <<>> ELSE UNCHANGED <<keys, ctag>>
  /\ served' = [kind |-> "none", tag |-> NoTag]
  /\ UNCHANGED <<stage, iq0, ires, iqbb, bufOK, prob, xtag, rtag, q0tag, ftag, facts>>

(* solve_x as a function: returns new fields and whether it throws *)
SolveX(st) ==
  IF ~st.ix THEN [st |-> st, threw |-> FALSE, xt |-> xtag, mn |-> minNull]
  ELSE LET a == SolveX0(st) IN
       IF BadReg THEN [st |-> [a EXCEPT !.ix = TRUE], threw |-> TRUE, xt |-> xtag, mn |-> FALSE]
       ELSE [st |-> [a EXCEPT !.ix = FALSE], threw |-> FALSE, xt |-> Tag(prob, reg), mn |-> FALSE]

Unknowns ==
  LET s == SolveX(Cur) IN
  /\ Commit(s.st) /\ xtag' = s.xt /\ minNull' = s.mn
  /\ served' = IF s.threw THEN [kind |-> "exc", tag |-> Tag(prob, reg)] ELSE [kind |-> "x", tag |-> s.xt]
  /\ UNCHANGED <<keys, ctag, prob, reg, rtag, facts>>

Residuals ==
  LET a == IF ires THEN [SolveX0(Cur) EXCEPT !.ires = FALSE] ELSE Cur IN
  /\ Commit(a)
  /\ rtag' = IF ires THEN Tag(prob, NoReg) ELSE rtag
  /\ served' = [kind |-> "r", tag |-> rtag']
  /\ UNCHANGED <<keys, ctag, minNull, prob, reg, xtag, facts>>

(* sum_of_squares, defect, lindep: need the factorisation only *)
Factor(kind) ==
  LET a == SolveX0(Cur) IN
  /\ Commit(a)
  /\ served' = [kind |-> kind, tag |-> a.ftag]
  /\ UNCHANGED <<keys, ctag, minNull, prob, reg, xtag, rtag, facts>>

(* q0_xx(i,j): inside the envelope -> stored element; outside -> cached column, key -max(invp) *)
Q0xx(inside, pk) ==
  LET a == EnsureQ0(Cur) IN
  IF inside
  THEN /\ Commit(a) /\ served' = [kind |-> "q0", tag |-> a.q0tag]
       /\ UNCHANGED <<keys, ctag, minNull, prob, reg, xtag, rtag, facts>>
  ELSE LET key == IF Fixed THEN -pk ELSE pk
           g == CacheGet(keys, ctag, key, [p |-> prob, r |-> NoReg, kind |-> "col"])
       IN /\ Commit([a EXCEPT !.bufOK = TRUE])
          /\ keys' = g.keys /\ ctag' = g.tags
          /\ served' = [kind |-> "q0col", tag |-> g.tag]
          /\ UNCHANGED <<minNull, prob, reg, xtag, rtag, facts>>

(* q_xx(i,j) on a singular system: rows of T for i and j through the cache *)
QxxSingular(i, j) ==
  LET a == EnsureQ0(Cur)
      s == SolveX(a)
  IN IF s.threw
     THEN /\ Commit(s.st) /\ xtag' = s.xt /\ minNull' = s.mn
          /\ served' = [kind |-> "exc", tag |-> Tag(prob, reg)]
          /\ UNCHANGED <<keys, ctag, prob, reg, rtag, facts>>
     ELSE LET new == [p |-> prob, r |-> reg, kind |-> "row"]
              g1 == CacheGet(keys, ctag, i, new)
              g2 == CacheGet(g1.keys, g1.tags, j, new)
          IN /\ Commit(s.st) /\ xtag' = s.xt /\ minNull' = s.mn
             /\ keys' = g2.keys /\ ctag' = g2.tags
             /\ served' = [kind |-> "qxx", tag |-> g1.tag, tag2 |-> g2.tag, needBuf |-> s.st.bufOK]
             /\ UNCHANGED <<prob, reg, rtag, facts>>

Qxx(i, j, inside, pk) == IF Nullity = 0 THEN Q0xx(inside, pk) ELSE QxxSingular(i, j)

(* q_bb(i,j): all needed q0 elements inside the envelope -> direct, else full solve with tmpres *)
Qbb(direct) ==
  LET a == EnsureQ0(Cur)
      b == IF direct THEN a ELSE [a EXCEPT !.iqbb = FALSE]
  IN /\ Commit(b)
     /\ served' = [kind |-> "qbb", tag |-> b.q0tag]
     /\ UNCHANGED <<keys, ctag, minNull, prob, reg, xtag, rtag, facts>>

Next ==
  \/ \E p \in Probs : Reset(p)
  \/ \E r \in Regs : MinX(r)
  \/ Unknowns \/ Residuals
  \/ Factor("ss") \/ Factor("df") \/ Factor("ld")
  \/ \E i, j \in 1..NU, ins \in BOOLEAN, pk \in 1..NU : Qxx(i, j, ins, pk)
  \/ \E ins \in BOOLEAN, pk \in 1..NU : Q0xx(ins, pk)
  \/ \E d \in BOOLEAN : Qbb(d)

Spec == Init /\ [][Next]_vars

(* ---------------- invariants ---------------- *)
TypeOK == /\ stage \in 0..3 /\ ix \in BOOLEAN /\ iq0 \in BOOLEAN /\ ires \in BOOLEAN /\ iqbb \in BOOLEAN
          /\ Len(keys) <= 3 /\ Len(ctag) = Len(keys)

(* everything in the cache was computed for the current input and, for rows of T,
   for the current regularisation; keys of rows are positive, of columns negative *)
EntryCurrent(k) == /\ ctag[k].p = prob
                   /\ (ctag[k].kind = "row" => ctag[k].r = reg)
CacheSound == \A k \in 1..Len(keys) : EntryCurrent(k)
KindMatchesKeySpace == Fixed => \A k \in 1..Len(keys) : (keys[k] > 0) <=> (ctag[k].kind = "row")

(* what a query hands out belongs to the current input / regularisation and is of the right kind *)
ServedCurrent ==
  /\ served.kind = "x" => served.tag = Tag(prob, reg)
  /\ served.kind \in {"r", "ss", "df", "ld", "q0", "qbb"} => served.tag.p = prob
  /\ served.kind = "q0col" => served.tag.p = prob /\ served.tag.kind = "col"
  /\ served.kind = "qxx" => /\ served.tag.p = prob /\ served.tag.r = reg /\ served.tag.kind = "row"
                            /\ served.tag2.p = prob /\ served.tag2.r = reg /\ served.tag2.kind = "row"
                            /\ served.needBuf

(* structural facts the code relies on *)
StageFlags == /\ (stage < 3 => iq0)
              /\ (~ix => stage >= 2 /\ xtag = Tag(prob, reg))
              /\ (~ires => stage >= 2 /\ rtag.p = prob)
              /\ (stage >= 2 => ftag.p = prob)
              /\ (stage = 3 => q0tag.p = prob)
              /\ (Len(keys) > 0 => bufOK)

(* a query that threw BadRegularization throws again when repeated *)
ExceptionRepeatable == served.kind = "exc" => ix /\ BadReg
=============================================================================
