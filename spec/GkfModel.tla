------------------------------ MODULE GkfModel ------------------------------
(* Product of                                                                 *)
(*   GkfGrammar     : the documented input language of gama-local             *)
(*                    (xml/gama-local.xsd, doc/gama-local-input.texi):        *)
(*                    element nesting, order and multiplicities;              *)
(*   GkfParserModel : the (state, tag) automaton implemented by               *)
(*                    GKFparser::startElement / endElement, transcribed case  *)
(*                    by case from lib/gnu_gama/xml/gkfparser.cpp.            *)
(* A behaviour is a sequence of XML events Open(tag) / Close / Leaf(tag)      *)
(* (one event per line of the generated document). The model decides the      *)
(* expected outcome of the document: accepted by the parser, or rejected at   *)
(* the line of the first inadmissible event.                                  *)
(* Invariants on the product:                                                 *)
(*   Inclusion      - while the document follows the grammar the parser model *)
(*                    is not in its error state;                              *)
(*   ErrorHasLine   - every way into the error state goes through error(),    *)
(*                    which records message and line;                         *)
(*   ErrorAbsorbing - nothing leaves the error state.                         *)
EXTENDS Integers, Sequences, FiniteSets, TLC, Json

CONSTANTS MaxEvents,     \* bound on the number of events of a document
          MaxOpenInLeaf, \* 1: also explore a start tag inside a leaf element
          Keep, Seed     \* thinning of emitted complete documents

Tags == {"gama-local", "network", "description", "parameters", "points-observations", "point", "obs", "cov-mat",
         "direction", "distance", "angle", "s-distance", "z-angle", "azimuth", "height-differences", "dh",
         "coordinates", "vectors", "vec", "bogus"}
ObsLeaves == {"direction", "distance", "angle", "s-distance", "z-angle", "azimuth"}

VARIABLES stack,    \* open elements, innermost last: records [tag, n (children seen), cov (cov-mat seen)]
          ps,       \* parser state (gkf_state) as a string
          perr,     \* "" | "located" (error() was called) | "unlocated" (state_error without error())
          events,   \* the document so far: sequence of [e |-> "open"|"close"|"leaf", tag]
          gram,     \* TRUE while the document follows the documented grammar
          errAt,    \* index of the event at which the parser entered the error state (0 = none)
          dev       \* ghost: grammar violations the parser let pass, as <<context, event>>
vars == <<stack, ps, perr, events, gram, errAt, dev>>

(* ------------------------------------------------------------------ grammar *)
(* may `tag` start as the next child of the innermost open element (or as root)? *)
GramStart(tag) ==
  IF stack = <<>> THEN tag = "gama-local" /\ events = <<>>
  ELSE LET top == stack[Len(stack)] IN
    CASE top.tag = "gama-local" -> tag = "network" /\ top.n = 0
      [] top.tag = "network" -> tag \in {"description", "parameters", "points-observations"}
      [] top.tag = "points-observations" -> tag \in {"point", "obs", "coordinates", "height-differences", "vectors"}
      [] top.tag = "obs" -> (tag \in ObsLeaves /\ ~top.cov) \/ (tag = "cov-mat" /\ ~top.cov)
      [] top.tag = "height-differences" -> (tag = "dh" /\ ~top.cov) \/ (tag = "cov-mat" /\ ~top.cov /\ top.n >= 1)
      [] top.tag = "coordinates" -> (tag = "point" /\ ~top.cov) \/ (tag = "cov-mat" /\ ~top.cov /\ top.n >= 1)
      [] top.tag = "vectors" -> (tag = "vec" /\ ~top.cov) \/ (tag = "cov-mat" /\ ~top.cov /\ top.n >= 1)
      [] OTHER -> FALSE                               \* leaves have no element content
(* may the innermost open element end now? *)
GramEnd ==
  LET top == stack[Len(stack)] IN
    CASE top.tag = "gama-local" -> top.n = 1
      [] top.tag = "obs" -> (top.cov => top.n >= 2)          \* documented: dim of cov-mat = number of observations (>= 1)
      [] top.tag = "height-differences" -> top.n >= 1 /\ (top.cov => top.n >= 2)
      [] top.tag \in {"coordinates", "vectors"} -> top.n >= 2 /\ top.cov
      [] OTHER -> TRUE

(* ------------------------------------------------------------- parser model *)
(* GKFparser::startElement: new state, or "ERR" where the code calls error() *)
PStart(s, tag) ==
  CASE s = "start" -> IF tag = "gama-local" THEN "gama_xml" ELSE "ERR"
    [] s = "gama_xml" -> IF tag = "network" THEN "network" ELSE "ERR"
    [] s = "network" -> IF tag = "description" THEN "description"
                        ELSE IF tag = "parameters" THEN "parameters"
                        ELSE IF tag = "points-observations" THEN "point_obs" ELSE "ERR"
    [] s = "point_obs" -> IF tag = "point" THEN "point"
                          ELSE IF tag = "obs" THEN "obs"
                          ELSE IF tag = "coordinates" THEN "coords"
                          ELSE IF tag = "height-differences" THEN "hdiffs"
                          ELSE IF tag = "vectors" THEN "vectors" ELSE "ERR"
    [] s = "obs" -> IF tag = "direction" THEN "obs_direction"
                    ELSE IF tag = "distance" THEN "obs_distance"
                    ELSE IF tag = "angle" THEN "obs_angle"
                    ELSE IF tag = "s-distance" THEN "obs_sdistance"
                    ELSE IF tag = "z-angle" THEN "obs_zangle"
                    ELSE IF tag = "azimuth" THEN "obs_azimuth"
                    ELSE IF tag = "cov-mat" THEN "obs_cov" ELSE "ERR"
    [] s = "coords" -> IF tag = "point" THEN "coords_point" ELSE IF tag = "cov-mat" THEN "coords_cov" ELSE "ERR"
    [] s = "hdiffs" -> IF tag = "dh" THEN "hdiffs_dh" ELSE IF tag = "cov-mat" THEN "hdiffs_cov" ELSE "ERR"
    [] s = "vectors" -> IF tag = "vec" THEN "vectors_vec" ELSE IF tag = "cov-mat" THEN "vectors_cov" ELSE "ERR"
    [] OTHER -> "ERR"       \* *_after_cov ("no observations after cov-mat"), leaves, *_cov, stop, error

(* GKFparser::endElement: new state; "ERR" = finish_* reports through error();
   "ERR0" = state_error is assigned without error() (no message, line 0).
   n = number of children of the closing element (for the finish_* checks modelled here) *)
PEnd(s, n) ==
  CASE s = "gama_xml" -> "stop"
    [] s = "network" -> "gama_xml"
    [] s \in {"description", "parameters", "point_obs"} -> "network"
    [] s = "point" -> "point_obs"
    [] s \in {"obs_direction", "obs_distance", "obs_angle", "obs_sdistance", "obs_zangle", "obs_azimuth"} -> "obs"
    [] s = "obs_cov" -> "obs_after_cov"
    [] s = "obs" -> "point_obs"
    [] s = "obs_after_cov" -> IF n <= 1 THEN "ERR" ELSE "point_obs"        \* dim >= 1 differs from 0 observations
    [] s = "hdiffs_dh" -> "hdiffs"
    [] s = "hdiffs_cov" -> "hdiffs_after_cov"
    [] s = "hdiffs" -> IF n = 0 THEN "ERR" ELSE "point_obs"                \* 0x0 covariance "not positive definite"
    [] s = "hdiffs_after_cov" -> IF n <= 1 THEN "ERR" ELSE "point_obs"
    [] s = "coords_point" -> "coords"
    [] s = "coords_cov" -> "coords_after_cov"
    [] s = "coords_after_cov" -> IF n <= 1 THEN "ERR" ELSE "point_obs"
    [] s = "coords" -> "ERR"                  \* finish_coords: coordinates without covariance matrix
    [] s = "vectors_vec" -> "vectors"
    [] s = "vectors_cov" -> "vectors_after_cov"
    [] s = "vectors_after_cov" -> IF n <= 1 THEN "ERR" ELSE "point_obs"
    [] s = "vectors" -> "ERR"                 \* finish_vectors: vectors without covariance matrix
    [] OTHER -> "ERR0"                        \* start, stop, error

(* ------------------------------------------------------------------ actions *)
Init == stack = <<>> /\ ps = "start" /\ perr = "" /\ events = <<>> /\ gram = TRUE /\ errAt = 0 /\ dev = {}

(* second entry point: start inside <points-observations>, so that the bound is spent on clusters *)
InitInner == /\ stack = <<[tag |-> "gama-local", n |-> 1, cov |-> FALSE], [tag |-> "network", n |-> 1, cov |-> FALSE],
                          [tag |-> "points-observations", n |-> 0, cov |-> FALSE]>>
             /\ ps = "point_obs" /\ perr = "" /\ gram = TRUE /\ errAt = 0 /\ dev = {}
             /\ events = <<[e |-> "open", tag |-> "gama-local"], [e |-> "open", tag |-> "network"], [e |-> "open", tag |-> "points-observations"]>>

Ctx == IF stack = <<>> THEN "root" ELSE stack[Len(stack)].tag
(* a grammar violation that the parser does not refuse is a deviation *)
Note(ok, what) == dev' = IF ~ok /\ ps' # "error" THEN dev \cup {<<Ctx, what>>} ELSE dev

Bump(st) == IF st = <<>> THEN st ELSE [st EXCEPT ![Len(st)].n = @ + 1]
MarkCov(st, tag) == IF st # <<>> /\ tag = "cov-mat" THEN [st EXCEPT ![Len(st)].cov = TRUE] ELSE st

ParserStep(new) ==
  IF perr # "" THEN UNCHANGED <<ps, perr, errAt>>                 \* first error wins, the state stays error
  ELSE IF new = "ERR" THEN ps' = "error" /\ perr' = "located" /\ errAt' = Len(events) + 1
  ELSE IF new = "ERR0" THEN ps' = "error" /\ perr' = "unlocated" /\ errAt' = Len(events) + 1
  ELSE ps' = new /\ UNCHANGED <<perr, errAt>>

Alive == Len(events) < MaxEvents /\ ps # "stop" /\ perr = ""

Open(tag) ==
  /\ Alive
  /\ (stack # <<>> \/ events = <<>>)                                          \* one root element only (XML)
  /\ (stack # <<>> /\ stack[Len(stack)].tag \notin {"gama-local", "network", "points-observations", "obs",
                                                     "height-differences", "coordinates", "vectors"}
        => MaxOpenInLeaf = 1)
  /\ gram' = (gram /\ GramStart(tag))
  /\ ParserStep(PStart(ps, tag))
  /\ stack' = Append(MarkCov(Bump(stack), tag), [tag |-> tag, n |-> 0, cov |-> FALSE])
  /\ events' = Append(events, [e |-> "open", tag |-> tag])
  /\ Note(GramStart(tag), tag)

Close ==
  /\ Alive /\ stack # <<>>
  /\ gram' = (gram /\ GramEnd)
  /\ ParserStep(PEnd(ps, stack[Len(stack)].n))
  /\ stack' = SubSeq(stack, 1, Len(stack) - 1)
  /\ events' = Append(events, [e |-> "close", tag |-> stack[Len(stack)].tag])
  /\ Note(GramEnd, "end")

(* <tag .../> on one line: start and end handler run at the same line *)
Leaf(tag) ==
  /\ Alive /\ stack # <<>>
  /\ tag \notin {"gama-local", "network", "points-observations", "obs", "height-differences", "coordinates", "vectors"}
  /\ gram' = (gram /\ GramStart(tag))
  /\ LET s1 == PStart(ps, tag) IN
       ParserStep(IF s1 = "ERR" THEN "ERR" ELSE PEnd(s1, 0))
  /\ stack' = MarkCov(Bump(stack), tag)
  /\ events' = Append(events, [e |-> "leaf", tag |-> tag])
  /\ Note(GramStart(tag), tag)

Next == (\E t \in Tags : Open(t) \/ Leaf(t)) \/ Close
Spec == Init /\ [][Next]_vars
SpecInner == InitInner /\ [][Next]_vars

(* --------------------------------------------------------------- invariants *)
Inclusion == gram => ps # "error"
ErrorHasLine == perr # "unlocated"
ErrorAbsorbing == [][ps = "error" => ps' = "error"]_vars
StopOnlyAtEnd == ps = "stop" => stack = <<>>
(* the parser accepts a complete document exactly when ... (named liberal deviations): *)
Complete == stack = <<>> /\ events # <<>>
Accepted == Complete /\ ps = "stop"
(* grammar-valid complete documents are accepted *)
Completeness == (Complete /\ gram) => Accepted
(* what the parser lets pass although the grammar forbids it: only these named liberal deviations *)
AllowedDeviations ==
  { <<"gama-local", "end">>,          \* <gama-local> without <network>
    <<"gama-local", "network">>,      \* more than one <network>
    <<"height-differences", "end">>,  \* <height-differences> without <dh>
    <<"height-differences", "cov-mat">>,
    <<"coordinates", "cov-mat">>,     \* <cov-mat> before any <point>: refused later by the dimension check
    <<"vectors", "cov-mat">> }
Exactness == dev \subseteq AllowedDeviations

(* ------------------------------------------------------------------ emission *)
RECURSIVE HashEv(_, _)
HashEv(ev, k) == IF k = 0 THEN 0 ELSE (Len(ev[k].tag) * 5 + (IF ev[k].e = "open" THEN 1 ELSE IF ev[k].e = "close" THEN 2 ELSE 3)) * (2 * k + 1) + HashEv(ev, k - 1)
Done == (Complete \/ perr # "")
EmitDoc == (Done /\ (HashEv(events, Len(events)) + Seed) % Keep = 0) =>
  PrintT("CASE " \o ToJson([events |-> events, accepted |-> Accepted, errAt |-> errAt, located |-> (perr # "unlocated"),
                            gram |-> gram, open |-> [i \in 1..Len(stack) |-> stack[i].tag]]))
=============================================================================
