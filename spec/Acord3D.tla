------------------------------- MODULE Acord3D -------------------------------
(* Approximate coordinates of spatial networks (property C06): positions and  *)
(* heights are derived by different algorithms of Acord2 that feed each other *)
(*   - a slope distance becomes a horizontal one through the zenith angle of   *)
(*     the same sight, or through the heights of both ends once they are known *)
(*     (Acord2::get_dist, AcordIntersection),                                  *)
(*   - a zenith angle alone gives a height once the horizontal positions of    *)
(*     both ends are known (AcordZderived),                                    *)
(*   - a vector carries position and height together (AcordVector).            *)
(* State: Kxy, Kz (points with known position / height), observations. The    *)
(* closure alternates the two sorts until nothing changes. Actions build the  *)
(* network by constructions in which one sort has to be derived before the    *)
(* other can be. TLC checks Determined and Monotone and emits the histories;  *)
(* the harness writes every network with nothing but the fixed points given.  *)
EXTENDS Integers, Sequences, FiniteSets, TLC, Json
CONSTANTS NP, Kinds, MaxExtra, Keep, Seed

U == <<[e |-> 0, n |-> 0, u |-> 100], [e |-> 10, n |-> 1, u |-> 112], [e |-> 4, n |-> 9, u |-> 124], [e |-> 12, n |-> 8, u |-> 88], [e |-> 6, n |-> 4, u |-> 131]>>
Pt == 1..NP
DE(a, b) == U[b].e - U[a].e
DN(a, b) == U[b].n - U[a].n
N2(a, b) == DE(a, b) * DE(a, b) + DN(a, b) * DN(a, b)
Cross(p, a, b) == DE(p, a) * DN(p, b) - DN(p, a) * DE(p, b)
Wide(p, a, b) == 100 * Cross(p, a, b) * Cross(p, a, b) >= 9 * N2(p, a) * N2(p, b)
Triangle(a, b, c) == Wide(a, b, c) /\ Wide(b, a, c) /\ Wide(c, a, b)

Ob(t, a, b) == [t |-> t, from |-> a, to |-> b]       \* t: dir, dist, sd, za, dh, vec
Pair(O, t, a, b) == Ob(t, a, b) \in O \/ Ob(t, b, a) \in O

VARIABLES fixed, built, obs, hist, extra, last
vars == <<fixed, built, obs, hist, extra, last>>
Known == fixed \cup built

(* ------------------------------------------------------------------- closure *)
SameSight(O, t1, t2, a, b) == (Ob(t1, a, b) \in O /\ Ob(t2, a, b) \in O) \/ (Ob(t1, b, a) \in O /\ Ob(t2, b, a) \in O)
HD(O, Kz, a, p) == \/ Pair(O, "dist", a, p)
                   \/ SameSight(O, "sd", "za", a, p)
                   \/ (Pair(O, "sd", a, p) /\ a \in Kz /\ p \in Kz)
Oriented(O, Kxy, s) == s \in Kxy /\ \E q \in Kxy \ {s} : Ob("dir", s, q) \in O
Bearing(O, Kxy, s, p) == Oriented(O, Kxy, s) /\ Ob("dir", s, p) \in O
SolvXY(O, Kxy, Kz, p) ==
  \/ \E s \in Kxy : Bearing(O, Kxy, s, p) /\ HD(O, Kz, s, p)
  \/ \E s1, s2 \in Kxy : s1 < s2 /\ Bearing(O, Kxy, s1, p) /\ Bearing(O, Kxy, s2, p) /\ Wide(p, s1, s2)
  \/ \E a, b, c \in Kxy : a < b /\ b < c /\ HD(O, Kz, a, p) /\ HD(O, Kz, b, p) /\ HD(O, Kz, c, p) /\ Triangle(a, b, c)
                          /\ Wide(p, a, b) /\ Wide(p, a, c) /\ Wide(p, b, c)
  \/ \E a \in Kxy \cap Kz : Pair(O, "vec", a, p)
SolvZ(O, Kxy, Kz, p) ==
  \E a \in Kz : \/ Pair(O, "dh", a, p)
                \/ SameSight(O, "sd", "za", a, p)
                \/ SameSight(O, "dist", "za", a, p)
                \/ (Pair(O, "za", a, p) /\ a \in Kxy /\ p \in Kxy)
                \/ (Pair(O, "vec", a, p) /\ a \in Kxy)
RECURSIVE Grow(_, _, _)
Grow(O, Kxy, Kz) == LET X == Kxy \cup {p \in Pt \ Kxy : SolvXY(O, Kxy, Kz, p)}
                        Z == Kz \cup {p \in Pt \ Kz : SolvZ(O, Kxy, Kz, p)}
                    IN IF X = Kxy /\ Z = Kz THEN <<Kxy, Kz>> ELSE Grow(O, X, Z)
Closure == Grow(obs, fixed, fixed)

(* -------------------------------------------------------------- construction *)
Init == /\ fixed \in {F \in SUBSET Pt : Cardinality(F) \in {2, 3}} /\ built = {} /\ obs = {} /\ hist = <<>> /\ extra = 0 /\ last = 0
Step(kind, p, O) == /\ extra = 0 /\ built' = built \cup {p} /\ obs' = obs \cup O /\ hist' = Append(hist, kind) /\ UNCHANGED <<fixed, extra, last>>
Polar(k, p, s, q) == {Ob("dir", s, q), Ob("dir", s, p)}
Build ==
  \E p \in Pt \ Known, s \in Known : \E q \in Known \ {s} :
    \/ "polar3" \in Kinds /\ Step("polar3", p, Polar(0, p, s, q) \cup {Ob("sd", s, p), Ob("za", s, p)})
    \/ "polar3b" \in Kinds /\ Step("polar3b", p, {Ob("dir", s, q), Ob("dir", s, p), Ob("sd", p, s), Ob("za", p, s)})          \* sighted back from the new point
    \/ "polardh" \in Kinds /\ \E fwd \in BOOLEAN : Step("polardh", p, Polar(0, p, s, q) \cup {Ob("sd", s, p), IF fwd THEN Ob("dh", s, p) ELSE Ob("dh", p, s)})
    \/ "polarza" \in Kinds /\ \E fwd \in BOOLEAN : Step("polarza", p, Polar(0, p, s, q) \cup {Ob("dist", s, p), IF fwd THEN Ob("za", s, p) ELSE Ob("za", p, s)})
    \/ "interza" \in Kinds /\ \E s2 \in Known \ {s}, fwd \in BOOLEAN : /\ Wide(p, s, s2)
         /\ \E q2 \in Known \ {s2} : Step("interza", p, {Ob("dir", s, q), Ob("dir", s, p), Ob("dir", s2, q2), Ob("dir", s2, p), IF fwd THEN Ob("za", s, p) ELSE Ob("za", p, s)})
    \/ "vec" \in Kinds /\ \E fwd \in BOOLEAN : Step("vec", p, {IF fwd THEN Ob("vec", s, p) ELSE Ob("vec", p, s)})
    \/ "trilatdh" \in Kinds /\ \E b, c \in Known : /\ s < b /\ b < c /\ Triangle(s, b, c) /\ Wide(p, s, b) /\ Wide(p, s, c) /\ Wide(p, b, c)
         /\ Step("trilatdh", p, {Ob("sd", s, p), Ob("sd", b, p), Ob("sd", p, c), Ob("dh", q, p)})
(* further consistent observations of any kind between points of the network, in increasing code so that a set is generated once *)
TCode(t) == IF t = "dir" THEN 0 ELSE IF t = "dist" THEN 100 ELSE IF t = "sd" THEN 200 ELSE IF t = "za" THEN 300 ELSE IF t = "dh" THEN 400 ELSE 500
Code(o) == TCode(o.t) + o.from * 10 + o.to
Extra == /\ built # {} /\ extra < MaxExtra
         /\ \E t \in {"dir", "dist", "sd", "za", "dh", "vec"}, a \in Known, b \in Known :
              LET o == Ob(t, a, b) IN
              /\ a # b /\ o \notin obs /\ Code(o) > last
              /\ (t \in {"dist", "dh", "vec"} => Ob(t, b, a) \notin obs)
              /\ obs' = obs \cup {o} /\ extra' = extra + 1 /\ last' = Code(o) /\ hist' = Append(hist, "extra")
              /\ UNCHANGED <<fixed, built>>
Next == Build \/ Extra
Spec == Init /\ [][Next]_vars

Determined == Known \subseteq Closure[1] /\ Known \subseteq Closure[2]
Monotone == [][Grow(obs, fixed, fixed)[1] \subseteq Grow(obs', fixed', fixed')[1] /\ Grow(obs, fixed, fixed)[2] \subseteq Grow(obs', fixed', fixed')[2]]_vars

RECURSIVE HashSet(_)
HashSet(S) == IF S = {} THEN 0 ELSE LET o == CHOOSE x \in S : \A y \in S : Code(x) <= Code(y) IN (Code(o) * 7 + 3 * HashSet(S \ {o})) % 100003
SetToSeq(S) == LET RECURSIVE f(_) f(T) == IF T = {} THEN <<>> ELSE LET o == CHOOSE x \in T : \A y \in T : Code(x) <= Code(y) IN <<o>> \o f(T \ {o}) IN f(S)
SortedPts(S) == IF S = {} THEN <<>> ELSE CHOOSE s \in [1..Cardinality(S) -> S] : \A a, b \in 1..Cardinality(S) : a < b => s[a] < s[b]
Case == [fixed |-> SortedPts(fixed), built |-> SortedPts(built), pts |-> [i \in Pt |-> U[i]], obs |-> SetToSeq(obs), hist |-> hist, extra |-> extra]
Emit == (built # {} /\ (HashSet(obs) + 13 * Cardinality(fixed) + Seed) % Keep = 0) => PrintT("CASE " \o ToJson(Case))
=============================================================================
