SPECIFICATION Spec
INVARIANT Finite
INVARIANT Monotone
INVARIANT Symmetric
INVARIANT Inverse
INVARIANT Accurate
CHECK_DEADLOCK FALSE
