------------------------------- MODULE Literals -------------------------------
(* The documented numeric and angle literals of gama inputs (property C18).     *)
(* A string is a sequence over the alphabet                                     *)
(*   d (a digit), "+", "-", ".", "e", "_" (blank), "x" (any other character).   *)
(* Float   : xs:double without INF/NaN: optional sign; digits with an optional   *)
(*           point and optional fraction digits, or a point followed by digits; *)
(*           optionally e, optional sign, digits                                *)
(* Integer : optional sign, digits                                              *)
(* Sexagesimal angle: optional sign, digits - digits - digits, optionally a     *)
(*           point and fraction digits       (degrees-minutes-seconds)          *)
(* each possibly surrounded by blanks. The acceptors are deterministic automata *)
(* written from these grammars; TLC enumerates every string up to MaxLen and    *)
(* emits it with the three verdicts; harness/drv_lit asks IsFloat, IsInteger    *)
(* and deg2gon of gama.                                                         *)
EXTENDS Integers, Sequences, FiniteSets, TLC, Json
CONSTANTS MaxLen, Keep, Seed
Alphabet == {"d", "+", "-", ".", "e", "_", "x"}
VARIABLE s
Init == s = <<>>
Next == Len(s) < MaxLen /\ \E c \in Alphabet : s' = Append(s, c)
Spec == Init /\ [][Next]_s

(* trim blanks *)
RECURSIVE DropLead(_)
DropLead(t) == IF t # <<>> /\ Head(t) = "_" THEN DropLead(Tail(t)) ELSE t
RECURSIVE DropTrail(_)
DropTrail(t) == IF t # <<>> /\ t[Len(t)] = "_" THEN DropTrail(SubSeq(t, 1, Len(t) - 1)) ELSE t
Trim(t) == DropTrail(DropLead(t))

(* float automaton: states  0 start, 1 sign, 2 int digits, 3 dot after digits, 4 dot without digits,
   5 fraction digits, 6 e, 7 exponent sign, 8 exponent digits, 9 dead *)
FStep(q, c) ==
  CASE q = 0 -> IF c \in {"+", "-"} THEN 1 ELSE IF c = "d" THEN 2 ELSE IF c = "." THEN 4 ELSE 9
    [] q = 1 -> IF c = "d" THEN 2 ELSE IF c = "." THEN 4 ELSE 9
    [] q = 2 -> IF c = "d" THEN 2 ELSE IF c = "." THEN 3 ELSE IF c = "e" THEN 6 ELSE 9
    [] q = 3 -> IF c = "d" THEN 5 ELSE IF c = "e" THEN 6 ELSE 9
    [] q = 4 -> IF c = "d" THEN 5 ELSE 9
    [] q = 5 -> IF c = "d" THEN 5 ELSE IF c = "e" THEN 6 ELSE 9
    [] q = 6 -> IF c \in {"+", "-"} THEN 7 ELSE IF c = "d" THEN 8 ELSE 9
    [] q = 7 -> IF c = "d" THEN 8 ELSE 9
    [] q = 8 -> IF c = "d" THEN 8 ELSE 9
    [] OTHER -> 9
RECURSIVE FRun(_, _)
FRun(q, t) == IF t = <<>> THEN q ELSE FRun(FStep(q, Head(t)), Tail(t))
IsFloat(t) == FRun(0, Trim(t)) \in {2, 3, 5, 8}

IStep(q, c) == CASE q = 0 -> IF c \in {"+", "-"} THEN 1 ELSE IF c = "d" THEN 2 ELSE 9
                 [] q \in {1, 2} -> IF c = "d" THEN 2 ELSE 9
                 [] OTHER -> 9
RECURSIVE IRun(_, _)
IRun(q, t) == IF t = <<>> THEN q ELSE IRun(IStep(q, Head(t)), Tail(t))
IsInteger(t) == IRun(0, Trim(t)) = 2

(* d-m-s automaton: 0 start, 1 sign, 2 deg digits, 3 first dash, 4 min digits, 5 second dash,
   6 sec digits, 7 dot, 8 fraction digits *)
AStep(q, c) == CASE q = 0 -> IF c \in {"+", "-"} THEN 1 ELSE IF c = "d" THEN 2 ELSE 9
                 [] q = 1 -> IF c = "d" THEN 2 ELSE 9
                 [] q = 2 -> IF c = "d" THEN 2 ELSE IF c = "-" THEN 3 ELSE 9
                 [] q = 3 -> IF c = "d" THEN 4 ELSE 9
                 [] q = 4 -> IF c = "d" THEN 4 ELSE IF c = "-" THEN 5 ELSE 9
                 [] q = 5 -> IF c = "d" THEN 6 ELSE 9
                 [] q = 6 -> IF c = "d" THEN 6 ELSE IF c = "." THEN 7 ELSE 9
                 [] q = 7 -> IF c = "d" THEN 8 ELSE 9
                 [] q = 8 -> IF c = "d" THEN 8 ELSE 9
                 [] OTHER -> 9
RECURSIVE ARun(_, _)
ARun(q, t) == IF t = <<>> THEN q ELSE ARun(AStep(q, Head(t)), Tail(t))
IsDMS(t) == ARun(0, Trim(t)) \in {6, 7, 8}

RECURSIVE H(_, _)
H(t, k) == IF k = 0 THEN 0 ELSE (CASE t[k] = "d" -> 1 [] t[k] = "+" -> 2 [] t[k] = "-" -> 3 [] t[k] = "." -> 4 [] t[k] = "e" -> 5 [] t[k] = "_" -> 6 [] OTHER -> 7) * (2 * k + 1) + H(t, k - 1)
Emit == ((H(s, Len(s)) + Seed) % Keep = 0) => PrintT("CASE " \o ToJson([s |-> s, f |-> IsFloat(s), i |-> IsInteger(s), a |-> IsDMS(s)]))
=============================================================================
