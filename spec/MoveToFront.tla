---------------------------- MODULE MoveToFront ----------------------------
(* gnu_gama/movetofront.h : a cache of N buffers with move-to-front          *)
(* replacement. keys is the sequence key_[0..active-1], bufs the buffers     *)
(* bound to them. Get(k) returns <<buffer, hit>>.                            *)
EXTENDS Integers, Sequences, FiniteSets
CONSTANTS N, Keys
VARIABLES keys, bufs, lastBuf, lastHit
vars == <<keys, bufs, lastBuf, lastHit>>

Range(s) == {s[i] : i \in 1..Len(s)}
Pos(s, k) == CHOOSE i \in 1..Len(s) : s[i] = k
Remove(s, i) == [j \in 1..(Len(s) - 1) |-> IF j < i THEN s[j] ELSE s[j + 1]]

(* buffers are numbered 1..N; initially buffer i sits in slot i *)
Init == keys = <<>> /\ bufs = [i \in 1..N |-> i] /\ lastBuf = 0 /\ lastHit = FALSE

(* the slot whose buffer get(k) hands out *)
Slot(k) == IF k \in Range(keys) THEN Pos(keys, k)
           ELSE IF Len(keys) < N THEN Len(keys) + 1 ELSE N

KeysAfterGet(ks, k) ==
  IF k \in Range(ks) THEN <<k>> \o Remove(ks, Pos(ks, k))
  ELSE IF Len(ks) < N THEN <<k>> \o ks
  ELSE <<k>> \o SubSeq(ks, 1, N - 1)

Get(k) == LET s == Slot(k) IN
  /\ lastHit' = (k \in Range(keys))
  /\ lastBuf' = bufs[s]
  /\ keys' = KeysAfterGet(keys, k)
  /\ bufs' = [i \in 1..N |-> IF i = 1 THEN bufs[s] ELSE IF i <= s THEN bufs[i - 1] ELSE bufs[i]]

Erase == keys' = <<>> /\ UNCHANGED <<bufs, lastBuf, lastHit>>

Next == (\E k \in Keys : Get(k)) \/ Erase
Spec == Init /\ [][Next]_vars

(* the buffers are always a permutation: no buffer is handed to two keys *)
BufsPermutation == Range(bufs) = 1..N /\ Len(bufs) = N
NoDuplicateKeys == Cardinality(Range(keys)) = Len(keys) /\ Len(keys) <= N
(* the requested key is at the front afterwards and owns the returned buffer *)
FrontIsLast == lastBuf # 0 /\ keys # <<>> => TRUE
(* two consecutive gets never return the same buffer for different keys:
   the second get may evict, but never the slot that was just moved to front *)
GetKeepsFront == [][\A k \in Keys : Get(k) /\ keys # <<>> /\ k # keys[1] /\ N >= 2
                     => (keys[1] \in Range(keys') /\ lastBuf' # bufs[1])]_vars
=============================================================================
