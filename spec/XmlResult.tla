------------------------------ MODULE XmlResult ------------------------------
(* Character data in the documents gama-local writes (property C12).          *)
(* A string is a sequence over a small alphabet that contains every character *)
(* with a special meaning in XML plus a non-ASCII one. The XML recommendation  *)
(* fixes the escape function for character data and attribute values; the law *)
(* every writer/reader pair must obey is  Unescape(Escape(s)) = s.            *)
(* TLC checks the law on all strings up to MaxLen and emits them; the harness *)
(* uses them as point identifiers, descriptions and extern attributes: the    *)
(* result written by gama-local must be well-formed and gama's own reader must*)
(* return exactly s.                                                          *)
EXTENDS Integers, Sequences, FiniteSets, TLC, Json
CONSTANTS MaxLen, Keep, Seed
Alphabet == {"a", "<", ">", "&", "'", "\"", "é", "_"}
Code(c) == CASE c = "a" -> 1 [] c = "<" -> 2 [] c = ">" -> 3 [] c = "&" -> 4 [] c = "'" -> 5 [] c = "\"" -> 6 [] c = "é" -> 7 [] OTHER -> 8
EscChar(c) == CASE c = "<" -> <<"&", "l", "t", ";">>
                [] c = ">" -> <<"&", "g", "t", ";">>
                [] c = "&" -> <<"&", "a", "m", "p", ";">>
                [] c = "'" -> <<"&", "a", "p", "o", "s", ";">>
                [] c = "\"" -> <<"&", "q", "u", "o", "t", ";">>
                [] OTHER -> <<c>>
RECURSIVE Escape(_)
Escape(s) == IF s = <<>> THEN <<>> ELSE EscChar(Head(s)) \o Escape(Tail(s))
(* reader: an entity starts at & and ends at the next ; *)
Entity(n) == CASE n = <<"l", "t">> -> "<" [] n = <<"g", "t">> -> ">" [] n = <<"a", "m", "p">> -> "&"
               [] n = <<"a", "p", "o", "s">> -> "'" [] n = <<"q", "u", "o", "t">> -> "\"" [] OTHER -> "?"
RECURSIVE Unescape(_)
Unescape(t) ==
  IF t = <<>> THEN <<>>
  ELSE IF Head(t) # "&" THEN <<Head(t)>> \o Unescape(Tail(t))
  ELSE LET k == CHOOSE i \in 2..Len(t) : t[i] = ";" /\ \A j \in 2..(i - 1) : t[j] # ";"
       IN <<Entity(SubSeq(t, 2, k - 1))>> \o Unescape(SubSeq(t, k + 1, Len(t)))

VARIABLE s
Init == s = <<>>
Next == Len(s) < MaxLen /\ \E c \in Alphabet : s' = Append(s, c)
Spec == Init /\ [][Next]_s
RoundTrip == Unescape(Escape(s)) = s
(* escaped text never contains a bare markup character *)
EscapedIsClean == \A i \in 1..Len(Escape(s)) : Escape(s)[i] \notin {"<", ">", "'", "\""}
RECURSIVE H(_, _)
H(t, k) == IF k = 0 THEN 0 ELSE Code(t[k]) * (2 * k + 1) + H(t, k - 1)
Emit == (s # <<>> /\ (H(s, Len(s)) + Seed) % Keep = 0) => PrintT("CASE " \o ToJson([s |-> s]))
=============================================================================
