------------------------------- MODULE GkfAttrs -------------------------------
(* Attribute level of the gama-local input language (property C11): every       *)
(* element of a valid base document carries attributes with a type and a        *)
(* required / optional flag, transcribed from the documented schema             *)
(* (xml/gama-local.xsd). A case corrupts the attributes of one or two elements  *)
(* in one of the ways below; the specification gives the verdict:               *)
(*   accepted  - the document is still valid (optional attribute missing)       *)
(*   refused   - the document must be refused with a diagnostic that names the  *)
(*               line of the FIRST corrupted element                            *)
(* Ways: missing (attribute removed), badnum (a number followed by a letter),   *)
(* text (a word where a number is expected), huge (a well-formed literal that    *)
(* overflows: 1e999), empty (empty string), badenum (a                          *)
(* value outside the enumeration), unknown (an attribute the schema does not    *)
(* know), domain (a value of the right type outside its meaningful domain: a    *)
(* non-positive standard deviation, a probability outside (0, 1), a negative    *)
(* dimension).                                                                  *)
(* Deviations: combinations in which gama-local is more permissive than the     *)
(* schema are named D1..D3 below (the property allows accepting more than the   *)
(* grammar); a corruption outside them must be refused at its own line, and a   *)
(* lenient one must neither crash nor hide a later refusing one.                *)
EXTENDS Integers, Sequences, FiniteSets, TLC, Json
CONSTANTS Keep, Seed

A(n, ty, req) == [n |-> n, ty |-> ty, req |-> req]
ObsCommon == << A("stdev", "posnum", FALSE), A("from_dh", "num", FALSE), A("to_dh", "num", FALSE), A("extern", "str", FALSE) >>
Schema ==
  [ network      |-> << A("axes-xy", "enum", FALSE), A("angles", "enum", FALSE), A("epoch", "num", FALSE) >>,
    parameters   |-> << A("sigma-apr", "posnum", FALSE), A("conf-pr", "prob", FALSE), A("tol-abs", "posnum", FALSE), A("sigma-act", "enum", FALSE),
                        A("algorithm", "enum", FALSE), A("angular", "enum", FALSE), A("latitude", "num", FALSE), A("cov-band", "int", FALSE) >>,
    pobs         |-> << A("distance-stdev", "nums", FALSE), A("direction-stdev", "posnum", FALSE), A("angle-stdev", "posnum", FALSE),
                        A("zenith-angle-stdev", "posnum", FALSE), A("azimuth-stdev", "posnum", FALSE) >>,
    point        |-> << A("id", "id", TRUE), A("x", "num", FALSE), A("y", "num", FALSE), A("z", "num", FALSE), A("adj", "enum", FALSE) >>,
    fixpoint     |-> << A("id", "id", TRUE), A("x", "num", FALSE), A("y", "num", FALSE), A("z", "num", FALSE), A("fix", "enum", FALSE) >>,
    obs          |-> << A("from", "id", FALSE), A("orientation", "num", FALSE), A("from_dh", "num", FALSE) >>,
    direction    |-> << A("to", "id", TRUE), A("val", "ang", TRUE) >> \o ObsCommon,
    distance     |-> << A("to", "id", TRUE), A("val", "num", TRUE) >> \o ObsCommon,
    angle        |-> << A("bs", "id", TRUE), A("fs", "id", TRUE), A("val", "ang", TRUE), A("stdev", "posnum", FALSE), A("from_dh", "num", FALSE),
                        A("bs_dh", "num", FALSE), A("fs_dh", "num", FALSE), A("extern", "str", FALSE) >>,
    sdistance    |-> << A("to", "id", TRUE), A("val", "num", TRUE) >> \o ObsCommon,
    zangle       |-> << A("to", "id", TRUE), A("val", "ang", TRUE) >> \o ObsCommon,
    azimuth      |-> << A("to", "id", TRUE), A("val", "ang", TRUE) >> \o ObsCommon,
    dh           |-> << A("from", "id", TRUE), A("to", "id", TRUE), A("val", "num", TRUE), A("stdev", "posnum", FALSE), A("dist", "posnum", FALSE), A("extern", "str", FALSE) >>,
    cpoint       |-> << A("id", "id", TRUE), A("x", "num", FALSE), A("y", "num", FALSE), A("z", "num", FALSE) >>,
    vec          |-> << A("from", "id", TRUE), A("to", "id", TRUE), A("dx", "num", TRUE), A("dy", "num", TRUE), A("dz", "num", TRUE), A("extern", "str", FALSE) >>,
    covmat       |-> << A("dim", "nat", TRUE), A("band", "nat", TRUE) >> ]
Elems == DOMAIN Schema
(* document order of the elements in the base document (the harness gives the line numbers) *)
Order == << "network", "parameters", "pobs", "fixpoint", "point", "obs", "direction", "distance", "angle", "sdistance", "zangle", "azimuth",
            "dh", "cpoint", "covmat", "vec" >>
Pos(e) == CHOOSE i \in 1..Len(Order) : Order[i] = e

Numeric == {"num", "posnum", "prob", "int", "nat", "ang", "nums"}
(* x and y are optional only together: removing one of them is invalid *)
Paired == { <<"point", "x">>, <<"point", "y">>, <<"fixpoint", "x">>, <<"fixpoint", "y">>, <<"cpoint", "x">>, <<"cpoint", "y">> }
(* optional attributes other elements of the base document depend on (directions without their own stdev, observations   *)
(* without their own from, the dimension of the covariance matrix): they are not removed or emptied                      *)
Needed == { <<"pobs", "direction-stdev">>, <<"obs", "from">>, <<"cpoint", "z">> }
Ways(e, a) ==
  (IF a.req \/ <<e, a.n>> \in Paired THEN {"missing"} ELSE IF <<e, a.n>> \in Needed THEN {} ELSE {"missing_optional"})
  \cup (IF a.ty \in Numeric THEN {"badnum", "text", "huge"} \cup (IF <<e, a.n>> \in Needed THEN {} ELSE {"empty"}) ELSE {})
  \cup (IF a.ty = "enum" THEN {"badenum", "empty"} ELSE {})
  \cup (IF a.ty = "id" /\ a.req THEN {"empty"} ELSE {})
  \cup (IF a.ty \in {"posnum", "prob", "nat"} THEN {"domain"} ELSE {})
Unknown(e) == [e |-> e, a |-> "bogus", ty |-> "str", w |-> "unknown"]
Invalid(m) == m.w \notin {"missing_optional", "add"}

(* ---- named deviations: gama-local is more permissive than the schema (transcribed with tools/survey_attrs.py) ---------- *)
(* D1: an empty value of these optional attributes is read as if the attribute were absent *)
EmptyAsAbsent == { "stdev", "from_dh", "to_dh", "bs_dh", "fs_dh", "dist", "orientation", "distance-stdev" }
D1(m) == m.w = "empty" /\ (m.a \in EmptyAsAbsent \/ (m.e \in {"point", "fixpoint"} /\ m.a \in {"z", "adj", "fix"}))
(* D2: a non-positive standard deviation is accepted (its square is used) *)
D2(m) == m.w = "domain" /\ m.a \in {"stdev", "direction-stdev", "angle-stdev", "zenith-angle-stdev", "azimuth-stdev"}
(* D3: an unknown algorithm name falls back to the default algorithm *)
D3(m) == m.e = "parameters" /\ m.a = "algorithm" /\ m.w \in {"badenum", "empty"}
Lenient(m) == D1(m) \/ D2(m) \/ D3(m)
Refusing(m) == Invalid(m) /\ ~Lenient(m)

VARIABLE case
Init == case = [k |-> 0]
One == /\ case.k = 0
       /\ \E e \in Elems : \E i \in 1..Len(Schema[e]) : \E w \in Ways(e, Schema[e][i]) \cup {"unknown"} :
            LET m == IF w = "unknown" THEN Unknown(e) ELSE [e |-> e, a |-> Schema[e][i].n, ty |-> Schema[e][i].ty, w |-> w]
            IN /\ (w = "unknown" => i = 1)
               /\ case' = [k |-> 1, muts |-> << m >>, verdict |-> IF Refusing(m) THEN "refused" ELSE "accepted", at |-> IF Refusing(m) THEN Pos(e) ELSE 0,
                              deviation |-> IF Invalid(m) /\ Lenient(m) THEN (IF D1(m) THEN "D1" ELSE IF D2(m) THEN "D2" ELSE "D3") ELSE "none"]
(* attributes of the documented schema that the base document does not use: adding one with a documented value leaves the document valid *)
Documented == { <<"parameters", "language", "en">>, <<"parameters", "encoding", "utf-8">>, <<"parameters", "angles", "400">>,
                <<"network", "epoch", "2021.25">>, <<"pobs", "direction-stdev", "7.5">> }
AddDocumented == /\ case.k = 0
                 /\ \E d \in Documented :
                      case' = [k |-> 1, muts |-> << [e |-> d[1], a |-> d[2], ty |-> d[3], w |-> "add"] >>, verdict |-> "accepted", at |-> 0, deviation |-> "none"]
(* two corrupted elements: the diagnostic names the first one in document order *)
Two == /\ case.k = 1 /\ Len(case.muts) = 1
       /\ \E e \in Elems : \E i \in 1..Len(Schema[e]) : \E w \in Ways(e, Schema[e][i]) :
            LET m == [e |-> e, a |-> Schema[e][i].n, ty |-> Schema[e][i].ty, w |-> w]
                m1 == case.muts[1]
            IN /\ e # m1.e /\ Invalid(m) /\ Invalid(m1) /\ (Refusing(m) \/ Refusing(m1))
               /\ ((Pos(e) * 7 + i * 13 + Len(w) * 3 + Pos(m1.e) * 5 + Len(m1.a) + Seed) % Keep = 0)
               /\ case' = [k |-> 2, muts |-> << m1, m >>, verdict |-> "refused", deviation |-> "none",
                            at |-> IF Refusing(m) /\ Refusing(m1) THEN (IF Pos(e) < Pos(m1.e) THEN Pos(e) ELSE Pos(m1.e)) ELSE IF Refusing(m) THEN Pos(e) ELSE Pos(m1.e)]
Next == One \/ Two \/ AddDocumented
Spec == Init /\ [][Next]_case
Emit == case.k > 0 => PrintT("CASE " \o ToJson(case))
(* the verdict is refused exactly when some mutation is invalid, and then it is located *)
Sound == case.k > 0 => /\ ((case.verdict = "refused") <=> (\E j \in 1..Len(case.muts) : Refusing(case.muts[j])))
                       /\ ((case.verdict = "refused") <=> (case.at > 0))
                       /\ (case.at > 0 => \E j \in 1..Len(case.muts) : Refusing(case.muts[j]) /\ Pos(case.muts[j].e) = case.at)
=============================================================================
