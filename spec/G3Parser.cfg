SPECIFICATION Spec
CONSTANTS MaxDepth = 7
          MaxAfterErr = 3
CONSTRAINT Bound
INVARIANTS Located ErrorAbsorbing ErrorNeverAccepted Nesting NoNullHandler StopIsRoot ZeroIsError
CHECK_DEADLOCK FALSE
