------------------------------ MODULE Quantiles ------------------------------
(* Direction B for property C17: the table of evaluations of gama's Normal,     *)
(* Student, Chi_square and NormalDistribution logged by harness/drv_statan is   *)
(* accepted iff it satisfies the laws of critical values (upper-tail            *)
(* convention: value(alpha) = x with P(X > x) = alpha):                         *)
(*   Finite      every value is a finite number                                 *)
(*   Monotone    within one function and one number of degrees of freedom the   *)
(*               value does not increase when alpha grows                       *)
(*   Symmetric   Normal(1-a) = -Normal(a), Student(1-a, N) = -Student(a, N)     *)
(*               to sppm 1e-6 relative: 1 + the rounding of 1-a as a double      *)
(*   Inverse     1 - Phi(Normal(a)) = a                                         *)
(*   Accurate    |value - ref| <= tol |ref| against the committed reference      *)
(*               table (tol 1e-6 normal, 5e-4 Student, 5e-3 chi-square)          *)
(* Reals are FixNum records [i |-> integer part, f |-> fraction in 1e-9];       *)
(* all arithmetic stays inside 32 bits.                                         *)
EXTENDS Integers, Sequences, FiniteSets, TLC, Json, IOUtils
TableFile == IF "TRACE" \in DOMAIN IOEnv THEN IOEnv.TRACE ELSE "quantiles.ndjson"
T == ndJsonDeserialize(TableFile)
N == Len(T)
VARIABLE done
Init == done = FALSE
Next == done' = TRUE
Spec == Init /\ [][Next]_done

Good(r) == "i" \in DOMAIN r.fx
(* difference a - b in 1e-9 units, or a large sentinel when it does not fit *)
Diff(a, b) == IF a.i - b.i > 1 THEN 2000000000 ELSE IF b.i - a.i > 1 THEN -2000000000
              ELSE (a.i - b.i) * 1000000000 + (a.f - b.f)
Abs(x) == IF x < 0 THEN -x ELSE x
NegFix(a) == IF a.f = 0 THEN [i |-> -a.i, f |-> 0] ELSE [i |-> -a.i - 1, f |-> 1000000000 - a.f]
AbsFix(a) == IF a.i < 0 THEN NegFix(a) ELSE a
(* tol (in 1e-6 relative units, "ppm") times |ref| in 1e-9 units:  ref * 1e9 * ppm * 1e-6 = ref * 1000 * ppm *)
TolNano(ref, ppm) == LET r == AbsFix(ref) IN r.i * 1000 * ppm + (r.f \div 1000000) * ppm + ppm + 2

(* large references (chi-square of many degrees of freedom) are compared in 1e-3 units: nano units times ppm leave 32 bits *)
DiffMilli(a, b) == IF a.i - b.i > 100000 THEN 2000000000 ELSE IF b.i - a.i > 100000 THEN -2000000000
                   ELSE (a.i - b.i) * 1000 + ((a.f \div 1000000) - (b.f \div 1000000))
TolMilli(ref, ppm) == (AbsFix(ref).i * ppm) \div 1000 + ppm \div 1000 + 2
IsBig(ref) == AbsFix(ref).i >= 100
SameSeries(a, b) == a.e = b.e /\ (("dof" \in DOMAIN a) => a.dof = b.dof) /\ a.ser = b.ser
BadFinite == {k \in 1..N : ~("big" \in DOMAIN T[k]) /\ ~Good(T[k])}
(* records of one series are logged with increasing alpha (field idx) *)
BadMonotone == {k \in 1..(N - 1) : /\ SameSeries(T[k], T[k + 1]) /\ T[k].e # "NormalInv" /\ T[k].e # "NormalCdf"
                                    /\ Good(T[k]) /\ Good(T[k + 1]) /\ T[k + 1].idx > T[k].idx
                                    /\ Diff(T[k + 1].fx, T[k].fx) > 0}
BadCdfMonotone == {k \in 1..(N - 1) : /\ T[k].e = "NormalCdf" /\ T[k + 1].e = "NormalCdf" /\ T[k + 1].idx > T[k].idx
                                       /\ Diff(T[k + 1].fx, T[k].fx) < 0}
(* symmetric partners carry the index of their mirror record in field mirror *)
BadSymmetric == {k \in 1..N : /\ "mirror" \in DOMAIN T[k] /\ Good(T[k]) /\ Good(T[T[k].mirror])
                               /\ IF AbsFix(T[k].fx).i >= 100
                                     THEN Abs(DiffMilli(T[k].fx, NegFix(T[T[k].mirror].fx))) > TolMilli(T[k].fx, T[k].sppm)
                                     ELSE Abs(Diff(T[k].fx, NegFix(T[T[k].mirror].fx))) > TolNano(T[k].fx, T[k].sppm) + 20}
BadInverse == {k \in 1..N : T[k].e = "NormalInv" /\ Good(T[k]) /\ Abs(Diff(T[k].fx, T[k].afx)) > TolNano(T[k].afx, 2) + 5}
BadAccurate == {k \in 1..N : /\ "ref" \in DOMAIN T[k] /\ Good(T[k])
                              /\ IF IsBig(T[k].ref)
                                    THEN Abs(DiffMilli(T[k].fx, T[k].ref)) > TolMilli(T[k].ref, T[k].ppm)
                                    ELSE Abs(Diff(T[k].fx, T[k].ref)) > TolNano(T[k].ref, T[k].ppm)}

Report(name, S) == (done \in BOOLEAN /\ S = {}) \/ (PrintT("REC " \o ToJson([law |-> name, bad |-> S])) /\ FALSE)
Finite == Report("FINITE", BadFinite)
Monotone == Report("MONOTONE", BadMonotone) /\ Report("CDFMONOTONE", BadCdfMonotone)
Symmetric == Report("SYMMETRIC", BadSymmetric)
Inverse == Report("INVERSE", BadInverse)
Accurate == Report("ACCURATE", BadAccurate)
=============================================================================
