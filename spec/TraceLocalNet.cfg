SPECIFICATION Spec
POSTCONDITION TraceAccepted
CHECK_DEADLOCK FALSE
