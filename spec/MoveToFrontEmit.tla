-------------------------- MODULE MoveToFrontEmit --------------------------
(* MoveToFront plus emission of every transition Get(k) of the state graph   *)
(* (action constraint), for one-step conformance replay on the real template.*)
EXTENDS MoveToFront, TLC, Json
EmitStep == (keys' # keys \/ lastBuf' # lastBuf \/ lastHit' # lastHit) /\ keys' # <<>> =>
   PrintT("CASE " \o ToJson([keys |-> keys, bufs |-> bufs, k |-> keys'[1], keys2 |-> keys', bufs2 |-> bufs',
                             buf |-> lastBuf', hit |-> lastHit']))
=============================================================================
