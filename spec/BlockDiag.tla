----------------------------- MODULE BlockDiag -----------------------------
\* Exact cases for the symmetric block-diagonal kernel (lib/gnu_gama/sparse/sbdiagonal.h):
\* BlockDiagonal::add_block / replicate / cholDec, the factorisation behind Homogenization
\* (weights of correlated observations for the envelope algorithm) - property C16, clause
\* "the block-diagonal Cholesky equals the dense one block by block".
\*
\* A block is generated from its FACTOR: an upper triangular band matrix U with integer entries and
\* positive diagonal.  B = U'U is then symmetric positive definite with the same band, its entries are
\* exact integers, and U is the unique Cholesky factor with positive diagonal - the exact certificate
\* the harness compares cholDec() with.  In-band zeros of B (an exact zero followed by a non-zero
\* in one pivot row, zero rows of the band, isolated unknowns) arise from the choice of U.
EXTENDS Integers, Sequences, FiniteSets, TLC, Json
CONSTANTS MaxDim, Diags, Keep, KeepZ, Seed
VARIABLE blk
Pos(d, w) == {p \in (1..d) \X (1..d) : p[1] < p[2] /\ p[2] - p[1] <= w}
Init == \E d \in 1..MaxDim : \E w \in 0..(d - 1) :
          blk \in [dim : {d}, band : {w}, diag : [1..d -> Diags], off : [Pos(d, w) -> {-1, 0, 1}]]
Next == UNCHANGED blk
Spec == Init /\ [][Next]_blk

d == blk.dim
w == blk.band
U(i, j) == IF i = j THEN blk.diag[i] ELSE IF <<i, j>> \in DOMAIN blk.off THEN blk.off[<<i, j>>] ELSE 0
RECURSIVE SumTo(_, _, _)
SumTo(i, j, k) == IF k = 0 THEN 0 ELSE U(k, i) * U(k, j) + SumTo(i, j, k - 1)
B(i, j) == SumTo(i, j, d)
\* packed storage of sbdiagonal.h: row i holds B(i,i) .. B(i, min(i+w, d))
Packed(F(_, _)) == [i \in 1..d |-> [k \in 1..((IF i + w <= d THEN w ELSE d - i) + 1) |-> F(i, i + k - 1)]]
\* the situations a pivot row can be in
ZeroThenNonzero == \E i \in 1..d : \E j, k \in (i + 1)..d : j < k /\ k - i <= w /\ B(i, j) = 0 /\ B(i, k) # 0
ZeroInBand == \E i \in 1..d : \E j \in (i + 1)..d : j - i <= w /\ B(i, j) = 0
Hash == LET s[i \in 0..d] == IF i = 0 THEN 0 ELSE s[i - 1] * 5 + blk.diag[i] + 3 * Cardinality({p \in DOMAIN blk.off : p[1] = i /\ blk.off[p] # 0})
                                                        + 11 * Cardinality({p \in DOMAIN blk.off : p[1] = i /\ blk.off[p] = 1})
        IN s[d] + 13 * w
Emit == ((Hash + Seed) % Keep = 0 \/ (ZeroThenNonzero /\ (Hash + Seed) % KeepZ = 0))
          => PrintT("CASE " \o ToJson([dim |-> d, band |-> w, B |-> Packed(B), U |-> Packed(U),
                                        ztn |-> ZeroThenNonzero, zib |-> ZeroInBand]))
\* laws of the definition: B is symmetric, vanishes outside the band and has a positive diagonal
Laws == /\ \A i, j \in 1..d : B(i, j) = B(j, i)
        /\ \A i, j \in 1..d : (j - i > w \/ i - j > w) => B(i, j) = 0
        /\ \A i \in 1..d : B(i, i) >= 1
=============================================================================
