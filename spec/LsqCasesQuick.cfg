INIT Init
NEXT Next
CONSTANTS
  Families = {"gen", "lev"}
  NSet = {1, 2, 3}
  MSet = {2, 3, 4}
  KMat = 7
  KVar = 11
  Seed = 1
INVARIANT Emit
INVARIANT CertSound
CHECK_DEADLOCK FALSE
