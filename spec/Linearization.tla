---------------------------- MODULE Linearization ----------------------------
(* Exact Jacobian of the observation functions of gama-local on lattice        *)
(* geometry (property C05). Points have integer coordinates (metres) in the    *)
(* physical east-north-up frame; offsets station -> target come from a         *)
(* catalogue of Pythagorean triples / quadruples so that horizontal distance d *)
(* and slope distance s are integers and every partial derivative is a         *)
(* rational number, written here from the definition of the observation        *)
(* function, not from gama's formulas:                                         *)
(*   bearing  b = atan2(dE, dN) (clockwise from north)                         *)
(*      db/dE_t =  dN / d^2     db/dN_t = -dE / d^2            [rad / m]       *)
(*   distance d :  dd/dE_t = dE / d,  dd/dN_t = dN / d                         *)
(*   slope distance s : ds/d(E,N,U)_t = (dE, dN, dU) / s                       *)
(*   zenith angle z = atan2(d, dU):                                            *)
(*      dz/dE_t = dU dE / (d s^2), dz/dN_t = dU dN / (d s^2), dz/dU_t = -d/s^2 *)
(*   height difference, observed coordinates, coordinate differences: +-1      *)
(* partial derivatives with respect to the station are the negatives; a        *)
(* direction additionally has -1 for the orientation unknown of its set; an    *)
(* angle is bearing(fs) - bearing(bs).                                         *)
(* A rational is a pair <<num, den>>, den > 0.                                 *)
EXTENDS Integers, Sequences, FiniteSets, TLC, Json

CONSTANTS Keep, Seed

Types == {"direction", "distance", "angle", "azimuth", "s-distance", "z-angle", "dh", "vector", "coords"}
AxesAll == {"ne", "sw", "es", "wn", "en", "nw", "se", "ws"}

(* horizontal offsets with integer length: <<dE, dN, d>> in all octants *)
BaseH == { <<300, 400, 500>>, <<400, 300, 500>>, <<500, 0, 500>>, <<0, 500, 500>>, <<500, 1200, 1300>>, <<800, 600, 1000>> }
Signs == { <<1, 1>>, <<1, -1>>, <<-1, 1>>, <<-1, -1>> }
OffH == { <<h[1] * s[1], h[2] * s[2], h[3]>> : h \in BaseH, s \in Signs }
(* vertical offsets making the slope distance an integer: <<d, dU, s>> *)
Vert == { <<500, 1200, 1300>>, <<500, -1200, 1300>>, <<1300, 8400, 8500>>, <<1000, 750, 1250>>, <<1000, -750, 1250>>, <<500, 0, 500>>, <<1300, 0, 1300>>, <<1000, 0, 1000>> }
Off3 == UNION { { <<h[1], h[2], v[2], h[3], v[3]>> : v \in {w \in Vert : w[1] = h[3]} } : h \in OffH }        \* dE, dN, dU, d, s
Off == { <<h[1], h[2], 0, h[3], h[3]>> : h \in OffH } \cup Off3

Frac(n, d) == <<n, d>>
Neg(f) == <<-f[1], f[2]>>

(* partial derivatives w.r.t. the TARGET's (E, N, U); geometric units (rad/m for angles) *)
DBearing(o) == << Frac(o[2], o[4] * o[4]), Frac(-o[1], o[4] * o[4]), Frac(0, 1) >>
DDist(o)    == << Frac(o[1], o[4]), Frac(o[2], o[4]), Frac(0, 1) >>
DSlope(o)   == << Frac(o[1], o[5]), Frac(o[2], o[5]), Frac(o[3], o[5]) >>
DZenith(o)  == << Frac(o[3] * o[1], o[4] * o[5] * o[5]), Frac(o[3] * o[2], o[4] * o[5] * o[5]), Frac(-o[4], o[5] * o[5]) >>

Small(o) == o[5] <= 1300 /\ o[4] <= 1300          \* keeps d s^2 inside 32 bits

VARIABLE cfg
Deltas == {0, 3, -3, 39999970, -39999970, 19999970, -19999970}       \* observed - computed in 1e-5 gon resp. 1e-5 m... see harness
Masks == {"tf", "ft", "tt"}                                          \* which of station / target are unknown (t) or fixed (f)
Init == cfg = [t |-> "none"]
Choose ==
  /\ cfg.t = "none"
  /\ \E t \in Types, o \in Off, o2 \in OffH, ax \in AxesAll, lh \in BOOLEAN, m \in Masks, dl \in Deltas, orient \in {0, 500000, 1234567, 3999999} :
       /\ (t \in {"s-distance", "z-angle"} => o[3] # 0 \/ o[5] = o[4])
       /\ (t \in {"direction", "distance", "angle", "azimuth"} => o[3] = 0)
       /\ (t \in {"dh"} => TRUE)
       /\ (t = "angle" => <<o2[1], o2[2]>> # <<o[1], o[2]>> /\ o2[1] * o[2] # o2[2] * o[1])       \* two different rays
       /\ (t # "angle" => o2 = <<300, 400, 500>>)
       /\ (t \notin {"direction", "angle", "azimuth", "z-angle"} => dl \in {0, 3, -3})
       /\ (t = "z-angle" => dl \in {0, 3, -3} /\ o[4] * o[5] <= 1300000)      \* d s^2 must fit 32 bits
       /\ (t # "direction" => orient = 0)
       /\ Small(o)
       /\ ((Len(t) * 131 + o[1] * 7 + o[2] * 3 + o[3] + o2[1] + (IF lh THEN 17 ELSE 0) + Len(ax) + (dl % 1013) + (orient % 89) + Seed
            + (CASE ax = "ne" -> 1 [] ax = "sw" -> 2 [] ax = "es" -> 3 [] ax = "wn" -> 4 [] ax = "en" -> 5 [] ax = "nw" -> 6 [] ax = "se" -> 7 [] OTHER -> 8) * 29
            + (IF m = "tf" THEN 1 ELSE IF m = "ft" THEN 2 ELSE 3) * 53) % Keep = 0)
       /\ cfg' = [t |-> t, off |-> o, off2 |-> o2, axes |-> ax, lefthanded |-> lh, mask |-> m, delta |-> dl, orient |-> orient,
                  dtarget |-> CASE t \in {"direction", "azimuth"} -> DBearing(o)
                                [] t = "distance" -> DDist(o)
                                [] t = "s-distance" -> DSlope(o)
                                [] t = "z-angle" -> DZenith(o)
                                [] t = "angle" -> DBearing(<<o2[1], o2[2], 0, o2[3], o2[3]>>)                  \* foresight = second ray
                                [] OTHER -> << Frac(0, 1), Frac(0, 1), Frac(1, 1) >>,
                  dback |-> IF t = "angle" THEN DBearing(o) ELSE << Frac(0, 1), Frac(0, 1), Frac(0, 1) >>]
Next == Choose
Spec == Init /\ [][Next]_cfg
Emit == cfg.t # "none" => PrintT("CASE " \o ToJson(cfg))
=============================================================================
