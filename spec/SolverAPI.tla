----------------------------- MODULE SolverAPI -----------------------------
(* The abstract contract of GNU_gama::AdjBase (what property C04 talks about)  *)
(* and the generator of API histories replayed on the real solvers.            *)
(*                                                                             *)
(* Abstract state: the current input (prob), the current regularisation (reg)  *)
(* and the history of calls. The contract: the answer to a query is a function *)
(* Answer(prob, reg, query) of the CURRENT input, regularisation and question  *)
(* only - by construction it cannot depend on hist. The conformance harness    *)
(* evaluates Answer with a fresh object (same input, same regularisation, only *)
(* that question) and compares after every step of every emitted history.      *)
EXTENDS Integers, Sequences, FiniteSets, TLC, Json

CONSTANTS NU,        \* unknowns are 1..NU
          NM,        \* observations are 1..NM
          NP,        \* problems 0..NP-1 (same dimensions), histories start on problem 0
          MaxLen,    \* maximal history length
          Keep,      \* thinning modulus for histories of maximal length (1 = all)
          Seed

VARIABLES hist, prob, reg
vars == <<hist, prob, reg>>

Op(o, a) == [op |-> o, a |-> a]
SortedSeq(T) == IF T = {} THEN <<>> ELSE
  CHOOSE s \in [1..Cardinality(T) -> T] : \A i, j \in 1..Cardinality(T) : i < j => s[i] < s[j]

Queries == {Op("x", <<>>), Op("r", <<>>), Op("ss", <<>>), Op("df", <<>>)}
           \cup {Op("qxx", <<i, j>>) : i, j \in 1..NU}
           \cup {Op("q0", <<i, j>>) : i, j \in 1..NU}
           \cup {Op("qbb", <<i, j>>) : i \in 1..NM, j \in 1..NM}
           \cup {Op("ld", <<i>>) : i \in 1..NU}
Subsets == {T \in SUBSET (1..NU) : T # {} /\ T # 1..NU}
Commands == {Op("minall", <<>>)} \cup {Op("min", SortedSeq(T)) : T \in Subsets}
            \cup {Op("reset", <<p>>) : p \in 0..(NP - 1)}
Alphabet == Queries \cup Commands

RECURSIVE HashOps(_, _)
HashOps(h, k) == IF k = 0 THEN 0
                 ELSE (Len(h[k].a) * 7 + (IF Len(h[k].a) > 0 THEN h[k].a[1] * 3 + h[k].a[Len(h[k].a)] ELSE 0)
                       + (CASE h[k].op = "x" -> 1 [] h[k].op = "r" -> 2 [] h[k].op = "ss" -> 3 [] h[k].op = "df" -> 4
                            [] h[k].op = "qxx" -> 5 [] h[k].op = "q0" -> 6 [] h[k].op = "qbb" -> 7 [] h[k].op = "ld" -> 8
                            [] h[k].op = "minall" -> 9 [] h[k].op = "min" -> 10 [] OTHER -> 11)) * (2 * k + 1)
                      + HashOps(h, k - 1)

Init == hist = <<>> /\ prob = 0 /\ reg = "ALL"

Call(o) ==
  /\ Len(hist) < MaxLen
  /\ (Len(hist) = MaxLen - 1 => (HashOps(Append(hist, o), MaxLen) + Seed) % Keep = 0)
  /\ hist' = Append(hist, o)
  /\ prob' = IF o.op = "reset" THEN o.a[1] ELSE prob
  /\ reg' = IF o.op = "minall" \/ o.op = "reset" THEN "ALL" ELSE IF o.op = "min" THEN o.a ELSE reg

Next == \E o \in Alphabet : Call(o)
Spec == Init /\ [][Next]_vars

(* a history is worth replaying when it ends with a query *)
(* simulation mode (-simulate -depth MaxLen): only complete walks are emitted *)
EmitFull == (Len(hist) = MaxLen /\ hist[Len(hist)] \in Queries) => PrintT("CASE " \o ToJson(hist))
Emit == (hist # <<>> /\ hist[Len(hist)] \in Queries) => PrintT("CASE " \o ToJson(hist))
=============================================================================
