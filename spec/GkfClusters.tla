---------------------------- MODULE GkfClusters ----------------------------
(* Cluster-level model of a gama-local input: a document is a sequence of      *)
(* observation clusters, each with a number of observations and a covariance   *)
(* matrix that is absent, well formed, or malformed in one named way.          *)
(* The documented rules decide the verdict of every cluster on its own:        *)
(*   obs                : cov-mat optional                                     *)
(*   height-differences : at least one dh, cov-mat optional                    *)
(*   coordinates, vectors: at least one element and a cov-mat                  *)
(*   a cov-mat has dim = number of observations of its cluster (>= 1),         *)
(*   0 <= band < dim, exactly dim(band+1) - band(band+1)/2 numeric elements,   *)
(*   and is positive definite.                                                 *)
(* Law (AccumulatorsReset): the verdict of a document is the verdict of its    *)
(* first refused cluster - no cluster is influenced by its neighbours - and    *)
(* the diagnostic names the line on which that cluster ends.                   *)
EXTENDS Integers, Sequences, FiniteSets, TLC, Json
CONSTANTS MaxClusters, Keep, Seed
VARIABLES doc
Types == {"obs", "height-differences", "coordinates", "vectors"}
CovKinds == {"none", "ok", "okband", "dimplus", "dimminus", "notpd", "zerovar", "few", "many", "bandbig", "badnum"}
Counts == 0..2

ObsPer(t) == IF t = "coordinates" THEN 2 ELSE IF t = "vectors" THEN 3 ELSE 1
NObs(c) == c.n * ObsPer(c.t)

ClusterOK(c) ==
  /\ (c.t # "obs" => c.n >= 1)
  /\ (c.t \in {"coordinates", "vectors"} => c.cov # "none")
  /\ c.cov \in {"none", "ok", "okband"}
  /\ (c.cov \in {"ok", "okband"} => NObs(c) >= 1)
  /\ (c.cov = "okband" => NObs(c) >= 2)

(* variants that cannot be written down for the cluster (e.g. dim-1 of a single observation is dim 0, refused anyway) stay in *)
Clusters == [t : Types, n : Counts, cov : CovKinds]

Init == doc = <<>>
Add == /\ Len(doc) < MaxClusters
       /\ \E c \in Clusters : doc' = Append(doc, c)
Next == Add
Spec == Init /\ [][Next]_doc

FirstBad == IF \E i \in 1..Len(doc) : ~ClusterOK(doc[i])
            THEN CHOOSE i \in 1..Len(doc) : ~ClusterOK(doc[i]) /\ \A j \in 1..(i - 1) : ClusterOK(doc[j])
            ELSE 0
RECURSIVE H(_, _)
H(d, k) == IF k = 0 THEN 0 ELSE (Len(d[k].t) + 3 * d[k].n + 7 * Len(d[k].cov)) * (2 * k + 1) + H(d, k - 1)
Emit == (doc # <<>> /\ (H(doc, Len(doc)) + Seed) % Keep = 0) => PrintT("CASE " \o ToJson([doc |-> doc, firstbad |-> FirstBad]))
=============================================================================
