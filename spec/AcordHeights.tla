---------------------------- MODULE AcordHeights ----------------------------
(* Which heights gama-local can derive when approximate heights are omitted   *)
(* (property C06). Heights propagate along three kinds of observed links      *)
(*    dh  : a levelled height difference                  (AcordHdiff),       *)
(*    zs  : a zenith angle with its slope distance        (AcordZderived),    *)
(*    zd  : a zenith angle with the horizontal distance   (AcordZderived),    *)
(*    za  : a zenith angle alone, between points whose horizontal positions   *)
(*          are known                                     (AcordZderived),    *)
(*    vec : a coordinate difference vector                (AcordVector),      *)
(* each usable in both directions: from its known end to the unknown one.     *)
(* The three algorithms run round-robin (Acord2::execute) until nothing new   *)
(* is found, so a height derived by one of them must be seen by the others:   *)
(* the closure is plain reachability in the graph of links, whatever the      *)
(* kinds and directions along the path are.                                   *)
(*                                                                            *)
(* State: known points, links. Actions attach a new point to a known one by a *)
(* link of some kind and direction (every spanning tree over the points, in   *)
(* every mixture of kinds, is a behaviour), then add further links. TLC       *)
(* checks Determined (constructed points are in the closure) and Monotone.    *)
(* The harness writes each network with fixed horizontal positions and        *)
(* WITHOUT heights of the constructed points (for pure vector networks also   *)
(* with nothing but the fixed point given) and requires every height of the   *)
(* closure to come out at its true value.                                     *)
EXTENDS Integers, Sequences, FiniteSets, TLC, Json
CONSTANTS NP, MaxExtra, Kinds, Keep, Seed

U == <<[e |-> 0, n |-> 0, u |-> 100], [e |-> 3, n |-> 4, u |-> 112], [e |-> 0, n |-> 4, u |-> 124], [e |-> 3, n |-> 0, u |-> 88],
       [e |-> 6, n |-> 2, u |-> 131], [e |-> 1, n |-> 7, u |-> 95]>>
Pt == 1..NP
Link(k, a, b) == [t |-> k, from |-> a, to |-> b]
AllLinks == {l \in {Link(k, a, b) : k \in Kinds, a \in Pt, b \in Pt} : l.from # l.to}

VARIABLES fixed, built, obs, hist, extra
vars == <<fixed, built, obs, hist, extra>>
Known == fixed \cup built

Joins(O, a, b) == \E l \in O : (l.from = a /\ l.to = b) \/ (l.from = b /\ l.to = a)
RECURSIVE Grow(_, _)
Grow(O, K) == LET K2 == K \cup {p \in Pt \ K : \E a \in K : Joins(O, a, p)} IN IF K2 = K THEN K ELSE Grow(O, K2)
Closure == Grow(obs, fixed)

Init == /\ fixed \in {{a} : a \in Pt} /\ built = {} /\ obs = {} /\ hist = <<>> /\ extra = 0
Attach == /\ extra = 0
          /\ \E p \in Pt \ Known, a \in Known, k \in Kinds, fwd \in BOOLEAN :
               LET l == IF fwd THEN Link(k, a, p) ELSE Link(k, p, a) IN
               /\ built' = built \cup {p} /\ obs' = obs \cup {l}
               /\ hist' = Append(hist, [k |-> k, fwd |-> fwd, l |-> l])
               /\ UNCHANGED <<fixed, extra>>
Code(l) == (IF l.t = "dh" THEN 0 ELSE IF l.t = "zs" THEN 100 ELSE IF l.t = "vec" THEN 200 ELSE IF l.t = "zd" THEN 300 ELSE 400) + l.from * 10 + l.to
Extra == /\ built # {} /\ extra < MaxExtra
         /\ \E l \in AllLinks \ obs : /\ l.from \in Known /\ l.to \in Known
                                      /\ ~ \E m \in obs : m.t = l.t /\ m.from = l.to /\ m.to = l.from   \* not the reverse of a link of the same kind
                                      /\ (extra > 0 => Code(l) > Code(hist[Len(hist)].l))
                                      /\ obs' = obs \cup {l} /\ extra' = extra + 1
                                      /\ hist' = Append(hist, [k |-> "extra", fwd |-> TRUE, l |-> l])
                                      /\ UNCHANGED <<fixed, built>>
Next == Attach \/ Extra
Spec == Init /\ [][Next]_vars

Determined == Known \subseteq Closure
Monotone == [][Grow(obs, fixed) \subseteq Grow(obs', fixed')]_vars

RECURSIVE HashSeq(_, _)
HashSeq(h, k) == IF k = 0 THEN 0 ELSE (Code(h[k].l) * (2 * k + 1) + 3 * HashSeq(h, k - 1)) % 100003
SortedPts(S) == IF S = {} THEN <<>> ELSE CHOOSE s \in [1..Cardinality(S) -> S] : \A a, b \in 1..Cardinality(S) : a < b => s[a] < s[b]
Case == [fixed |-> SortedPts(fixed), built |-> SortedPts(built), closure |-> SortedPts(Closure), pts |-> [i \in Pt |-> U[i]],
         obs |-> [i \in 1..Len(hist) |-> hist[i].l], hist |-> [i \in 1..Len(hist) |-> hist[i].k], extra |-> extra]
Emit == (built # {} /\ (HashSeq(hist, Len(hist)) + Seed) % Keep = 0) => PrintT("CASE " \o ToJson(Case))
=============================================================================
