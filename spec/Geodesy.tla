-------------------------------- MODULE Geodesy --------------------------------
(* Round-trip and symmetry laws of the geodetic primitives (property C18).       *)
(*   RoundTrip : xyz2blh(blh2xyz(B, L, H)) = (B, L, H) on every ellipsoid of the *)
(*               table, for the grid of latitudes (incl. the poles), longitudes  *)
(*               (incl. 0 and +-180) and heights (-10 km .. 20000 km) below;     *)
(*   Anchors   : on the equator at longitude 0: (X, Y, Z) = (a + H, 0, 0);       *)
(*               at the poles: (0, 0, +-(b + H));                                *)
(*   Bearing   : bearing(P, Q) = bearing(Q, P) +- 200 gon, distance symmetric,   *)
(*               d cos(bearing) = dx, d sin(bearing) = dy for lattice points in  *)
(*               all quadrants; 0 <= bearing < 400 gon, due north is exactly 0.   *)
(* The laws are relational (TLA+ has no trigonometry); the specification fixes   *)
(* the grid exhaustively and the exact anchors.                                  *)
EXTENDS Integers, Sequences, TLC, Json
CONSTANTS NEllipsoids, Keep, Seed
Lats == {-90, -89, -60, -45, -1, 0, 1, 30, 45, 89, 90}                 \* degrees
Lons == {-179, -135, -90, -1, 0, 1, 90, 135, 179, 180}
Heights == {-10000, 0, 1, 5000, 100000, 6400000, 20000000}             \* metres
VARIABLE g
Init == g \in [el : 1..NEllipsoids, lat : Lats, lon : Lons, h : Heights] \cup [dx : -3..3, dy : -3..3, bx : {0, 1000, -250000}, by : {0, -700}]
Next == UNCHANGED g
Spec == Init /\ [][Next]_g
IsGeo == "el" \in DOMAIN g
Anchor == IF ~IsGeo THEN "none" ELSE IF g.lat = 0 /\ g.lon = 0 THEN "equator0" ELSE IF g.lat = 90 THEN "north" ELSE IF g.lat = -90 THEN "south" ELSE "none"
Hash == IF IsGeo THEN (g.el * 7) + ((g.lat + 90) * 3) + (g.lon + 180) + (g.h % 97) ELSE 0
\* thinning applies to the ellipsoid grid only; the 288 lattice offsets of the bearing law are always emitted
Emit == ((IsGeo => (Hash + Seed) % Keep = 0) /\ (~IsGeo => <<g.dx, g.dy>> # <<0, 0>>)) => PrintT("CASE " \o ToJson([g |-> g, anchor |-> Anchor]))
=============================================================================
