SPECIFICATION TraceSpec
CONSTANTS Alg = "chol"
          Probs = {0, 1}
          Regs = {}
          AllReg = {}
          NoProb = 99
          NoReg = {99}
          PartReg = {98}
          FixedMinX = TRUE
INVARIANT ServedCurrent
INVARIANT SolvedMeansCurrent
INVARIANT ExcOnlyWhenBad
POSTCONDITION TraceAccepted
CHECK_DEADLOCK FALSE
