---------------------------- MODULE ExactLA ----------------------------
(* Exact linear algebra over the integers for small matrices.              *)
(* A matrix is a tuple of rows, a row is a tuple of integers.              *)
(* Everything here is the mathematical definition, written without any     *)
(* reference to gama's algorithms: cofactor determinants, adjugates,       *)
(* fraction-free Gauss-Jordan elimination with gcd normalisation (so that  *)
(* TLC's 32-bit integers never overflow on the small universes used).      *)
EXTENDS Integers, Sequences, FiniteSets

Abs(x) == IF x < 0 THEN -x ELSE x
Max2(a, b) == IF a < b THEN b ELSE a
Min2(a, b) == IF a < b THEN a ELSE b
MinOf(S) == CHOOSE x \in S : \A y \in S : x <= y
MaxOf(S) == CHOOSE x \in S : \A y \in S : y <= x

RECURSIVE GcdP(_, _)
GcdP(a, b) == IF b = 0 THEN a ELSE GcdP(b, a % b)
Gcd(a, b) == GcdP(Abs(a), Abs(b))
Lcm(a, b) == IF a = 0 \/ b = 0 THEN 0 ELSE (Abs(a) \div Gcd(a, b)) * Abs(b)

RECURSIVE SumN(_, _)
SumN(f, n) == IF n = 0 THEN 0 ELSE f[n] + SumN(f, n - 1)
Sum(f) == SumN(f, Len(f))                 \* f is a tuple

RECURSIVE GcdN(_, _)
GcdN(f, n) == IF n = 0 THEN 0 ELSE Gcd(f[n], GcdN(f, n - 1))
RECURSIVE LcmN(_, _)
LcmN(f, n) == IF n = 0 THEN 1 ELSE Lcm(f[n], LcmN(f, n - 1))

NRows(M) == Len(M)
NCols(M) == IF Len(M) = 0 THEN 0 ELSE Len(M[1])

Dot(u, v) == SumN([k \in 1..Len(u) |-> u[k] * v[k]], Len(u))
Transpose(M) == [j \in 1..NCols(M) |-> [i \in 1..NRows(M) |-> M[i][j]]]
MatVec(M, v) == [i \in 1..NRows(M) |-> Dot(M[i], v)]
MatMul(A, B) == LET Bt == Transpose(B) IN
                [i \in 1..NRows(A) |-> [j \in 1..NCols(B) |-> Dot(A[i], Bt[j])]]
Identity(n) == [i \in 1..n |-> [j \in 1..n |-> IF i = j THEN 1 ELSE 0]]
ZeroMat(m, n) == [i \in 1..m |-> [j \in 1..n |-> 0]]
Scale(k, M) == [i \in 1..NRows(M) |-> [j \in 1..NCols(M) |-> k * M[i][j]]]
IsSymmetric(M) == \A i, j \in 1..NRows(M) : M[i][j] = M[j][i]

(* --- determinant, adjugate (cofactor expansion; dimensions <= 5) --- *)
Minor(M, r, c) ==
  [i \in 1..(NRows(M) - 1) |->
    [j \in 1..(NCols(M) - 1) |->
      M[IF i < r THEN i ELSE i + 1][IF j < c THEN j ELSE j + 1]]]
Sign(k) == IF k % 2 = 0 THEN 1 ELSE -1

RECURSIVE Det(_)
Det(M) ==
  IF NRows(M) = 0 THEN 1
  ELSE IF NRows(M) = 1 THEN M[1][1]
  ELSE IF NRows(M) = 2 THEN M[1][1] * M[2][2] - M[1][2] * M[2][1]
  ELSE SumN([j \in 1..NCols(M) |->
              IF M[1][j] = 0 THEN 0 ELSE Sign(1 + j) * M[1][j] * Det(Minor(M, 1, j))],
            NCols(M))

Adjugate(M) ==
  IF NRows(M) = 1 THEN << <<1>> >>
  ELSE [i \in 1..NRows(M) |-> [j \in 1..NRows(M) |-> Sign(i + j) * Det(Minor(M, j, i))]]

LeadingBlock(M, k) == [i \in 1..k |-> [j \in 1..k |-> M[i][j]]]
(* Sylvester: symmetric M is positive definite iff all leading minors are > 0 *)
IsSPD(M) == IsSymmetric(M) /\ \A k \in 1..NRows(M) : Det(LeadingBlock(M, k)) > 0

(* --- fraction-free Gauss-Jordan elimination ------------------------- *)
NormRow(r) == LET g == GcdN(r, Len(r)) IN
              IF g <= 1 THEN r ELSE [j \in 1..Len(r) |-> r[j] \div g]

SwapRows(M, a, b) == [i \in 1..NRows(M) |-> IF i = a THEN M[b] ELSE IF i = b THEN M[a] ELSE M[i]]

RECURSIVE Elim(_, _, _, _)
Elim(M, r, c, pivs) ==
  IF c > NCols(M) \/ r > NRows(M) THEN [M |-> M, pivs |-> pivs]
  ELSE LET cand == {i \in r..NRows(M) : M[i][c] # 0} IN
       IF cand = {} THEN Elim(M, r, c + 1, pivs)
       ELSE LET p   == MinOf(cand)
                M1  == IF p = r THEN M ELSE SwapRows(M, r, p)
                piv == M1[r][c]
                M2  == [i \in 1..NRows(M1) |->
                          IF i = r THEN NormRow(M1[r])
                          ELSE IF M1[i][c] = 0 THEN M1[i]
                          ELSE NormRow([j \in 1..NCols(M1) |->
                                          piv * M1[i][j] - M1[i][c] * M1[r][j]])]
            IN Elim(M2, r + 1, c + 1, Append(pivs, c))

Reduce(M) == IF NRows(M) = 0 \/ NCols(M) = 0 THEN [M |-> M, pivs |-> <<>>] ELSE Elim(M, 1, 1, <<>>)
Rank(M) == Len(Reduce(M).pivs)
Range(s) == {s[k] : k \in 1..Len(s)}

(* Integer basis of the null space of M (n = number of columns must be    *)
(* passed because a matrix with zero rows carries no width).              *)
NullBasisN(M, n) ==
  IF NRows(M) = 0 THEN [f \in 1..n |-> [j \in 1..n |-> IF j = f THEN 1 ELSE 0]]
  ELSE
  LET R     == Reduce(M)
      pivs  == R.pivs
      E     == R.M
      free  == {c \in 1..n : c \notin Range(pivs)}
      fseq  == CHOOSE s \in [1..Cardinality(free) -> free] :
                 \A a, b \in 1..Cardinality(free) : a < b => s[a] < s[b]
      Vec(f) == LET L == LcmN([k \in 1..Len(pivs) |-> E[k][pivs[k]]], Len(pivs))
                    raw == [j \in 1..n |->
                             IF j = f THEN L
                             ELSE IF j \in Range(pivs)
                                  THEN LET k == CHOOSE k \in 1..Len(pivs) : pivs[k] = j
                                       IN -(E[k][f] * (L \div E[k][j]))
                                  ELSE 0]
                IN NormRow(raw)
  IN [k \in 1..Cardinality(free) |-> Vec(fseq[k])]

NullBasis(M) == NullBasisN(M, NCols(M))

(* rows of a tuple-of-vectors G restricted to the index set S (others zeroed) *)
Restrict(v, S) == [j \in 1..Len(v) |-> IF j \in S THEN v[j] ELSE 0]

(* A regularisation subset S resolves the defect iff the null vectors stay *)
(* independent when restricted to S.                                        *)
Admissible(G, S) == Len(G) = 0 \/ Rank([k \in 1..Len(G) |-> Restrict(G[k], S)]) = Len(G)

(* block diagonal assembly *)
RECURSIVE BlockOffsets(_, _)
BlockOffsets(dims, k) == IF k = 0 THEN 0 ELSE dims[k] + BlockOffsets(dims, k - 1)

=============================================================================
