---- MODULE TraceEnvelope_TTrace_1790821416 ----
EXTENDS TraceEnvelope, Sequences, TLCExt, Toolbox, Naturals, TLC

_expression ==
    LET TraceEnvelope_TEExpression == INSTANCE TraceEnvelope_TEExpression
    IN TraceEnvelope_TEExpression!expression
----

_trace ==
    LET TraceEnvelope_TETrace == INSTANCE TraceEnvelope_TETrace
    IN TraceEnvelope_TETrace!trace
----

_inv ==
    ~(
        TLCGet("level") = Len(_TETrace)
        /\
        prob = (0)
        /\
        ftag = ([p |-> "none", r |-> "none"])
        /\
        keys = (<<>>)
        /\
        ires = (TRUE)
        /\
        iq0 = (TRUE)
        /\
        l = (3)
        /\
        facts = ((0 :> [nullity |-> 1, bad |-> {{}, {1}, {3}, {1, 3}}] @@ 1 :> [nullity |-> 1, bad |-> {{}}]))
        /\
        ix = (TRUE)
        /\
        stage = (0)
        /\
        q0tag = ([p |-> "none", r |-> "none"])
        /\
        bufOK = (FALSE)
        /\
        reg = ("ALL")
        /\
        served = ([kind |-> "none", tag |-> [p |-> "none", r |-> "none"]])
        /\
        ctag = (<<>>)
        /\
        iqbb = (TRUE)
        /\
        xtag = ([p |-> "none", r |-> "none"])
        /\
        rtag = ([p |-> "none", r |-> "none"])
        /\
        minNull = (TRUE)
    )
----

_init ==
    /\ prob = _TETrace[1].prob
    /\ ftag = _TETrace[1].ftag
    /\ minNull = _TETrace[1].minNull
    /\ xtag = _TETrace[1].xtag
    /\ stage = _TETrace[1].stage
    /\ l = _TETrace[1].l
    /\ keys = _TETrace[1].keys
    /\ rtag = _TETrace[1].rtag
    /\ reg = _TETrace[1].reg
    /\ q0tag = _TETrace[1].q0tag
    /\ served = _TETrace[1].served
    /\ ctag = _TETrace[1].ctag
    /\ iq0 = _TETrace[1].iq0
    /\ ires = _TETrace[1].ires
    /\ bufOK = _TETrace[1].bufOK
    /\ ix = _TETrace[1].ix
    /\ facts = _TETrace[1].facts
    /\ iqbb = _TETrace[1].iqbb
----

_next ==
    /\ \E i,j \in DOMAIN _TETrace:
        /\ \/ /\ j = i + 1
              /\ i = TLCGet("level")
        /\ prob  = _TETrace[i].prob
        /\ prob' = _TETrace[j].prob
        /\ ftag  = _TETrace[i].ftag
        /\ ftag' = _TETrace[j].ftag
        /\ minNull  = _TETrace[i].minNull
        /\ minNull' = _TETrace[j].minNull
        /\ xtag  = _TETrace[i].xtag
        /\ xtag' = _TETrace[j].xtag
        /\ stage  = _TETrace[i].stage
        /\ stage' = _TETrace[j].stage
        /\ l  = _TETrace[i].l
        /\ l' = _TETrace[j].l
        /\ keys  = _TETrace[i].keys
        /\ keys' = _TETrace[j].keys
        /\ rtag  = _TETrace[i].rtag
        /\ rtag' = _TETrace[j].rtag
        /\ reg  = _TETrace[i].reg
        /\ reg' = _TETrace[j].reg
        /\ q0tag  = _TETrace[i].q0tag
        /\ q0tag' = _TETrace[j].q0tag
        /\ served  = _TETrace[i].served
        /\ served' = _TETrace[j].served
        /\ ctag  = _TETrace[i].ctag
        /\ ctag' = _TETrace[j].ctag
        /\ iq0  = _TETrace[i].iq0
        /\ iq0' = _TETrace[j].iq0
        /\ ires  = _TETrace[i].ires
        /\ ires' = _TETrace[j].ires
        /\ bufOK  = _TETrace[i].bufOK
        /\ bufOK' = _TETrace[j].bufOK
        /\ ix  = _TETrace[i].ix
        /\ ix' = _TETrace[j].ix
        /\ facts  = _TETrace[i].facts
        /\ facts' = _TETrace[j].facts
        /\ iqbb  = _TETrace[i].iqbb
        /\ iqbb' = _TETrace[j].iqbb

\* Uncomment the ASSUME below to write the states of the error trace
\* to the given file in Json format. Note that you can pass any tuple
\* to `JsonSerialize`. For example, a sub-sequence of _TETrace.
    \* ASSUME
    \*     LET J == INSTANCE Json
    \*         IN J!JsonSerialize("TraceEnvelope_TTrace_1790821416.json", _TETrace)

=============================================================================

 Note that you can extract this module `TraceEnvelope_TEExpression`
  to a dedicated file to reuse `expression` (the module in the 
  dedicated `TraceEnvelope_TEExpression.tla` file takes precedence 
  over the module `TraceEnvelope_TEExpression` below).

---- MODULE TraceEnvelope_TEExpression ----
EXTENDS TraceEnvelope, Sequences, TLCExt, Toolbox, Naturals, TLC

expression == 
    [
        \* To hide variables of the `TraceEnvelope` spec from the error trace,
        \* remove the variables below.  The trace will be written in the order
        \* of the fields of this record.
        prob |-> prob
        ,ftag |-> ftag
        ,minNull |-> minNull
        ,xtag |-> xtag
        ,stage |-> stage
        ,l |-> l
        ,keys |-> keys
        ,rtag |-> rtag
        ,reg |-> reg
        ,q0tag |-> q0tag
        ,served |-> served
        ,ctag |-> ctag
        ,iq0 |-> iq0
        ,ires |-> ires
        ,bufOK |-> bufOK
        ,ix |-> ix
        ,facts |-> facts
        ,iqbb |-> iqbb
        
        \* Put additional constant-, state-, and action-level expressions here:
        \* ,_stateNumber |-> _TEPosition
        \* ,_probUnchanged |-> prob = prob'
        
        \* Format the `prob` variable as Json value.
        \* ,_probJson |->
        \*     LET J == INSTANCE Json
        \*     IN J!ToJson(prob)
        
        \* Lastly, you may build expressions over arbitrary sets of states by
        \* leveraging the _TETrace operator.  For example, this is how to
        \* count the number of times a spec variable changed up to the current
        \* state in the trace.
        \* ,_probModCount |->
        \*     LET F[s \in DOMAIN _TETrace] ==
        \*         IF s = 1 THEN 0
        \*         ELSE IF _TETrace[s].prob # _TETrace[s-1].prob
        \*             THEN 1 + F[s-1] ELSE F[s-1]
        \*     IN F[_TEPosition - 1]
    ]

=============================================================================



Parsing and semantic processing can take forever if the trace below is long.
 In this case, it is advised to uncomment the module below to deserialize the
 trace from a generated binary file.

\*
\*---- MODULE TraceEnvelope_TETrace ----
\*EXTENDS TraceEnvelope, IOUtils, TLC
\*
\*trace == IODeserialize("TraceEnvelope_TTrace_1790821416.bin", TRUE)
\*
\*=============================================================================
\*

---- MODULE TraceEnvelope_TETrace ----
EXTENDS TraceEnvelope, TLC

trace == 
    <<
    ([prob |-> 0,ftag |-> [p |-> "none", r |-> "none"],keys |-> <<>>,ires |-> TRUE,iq0 |-> TRUE,l |-> 1,facts |-> (0 :> [nullity |-> 1, bad |-> {{}, {1}, {3}, {1, 3}}] @@ 1 :> [nullity |-> 1, bad |-> {{}}]),ix |-> TRUE,stage |-> 0,q0tag |-> [p |-> "none", r |-> "none"],bufOK |-> FALSE,reg |-> "ALL",served |-> [kind |-> "none", tag |-> [p |-> "none", r |-> "none"]],ctag |-> <<>>,iqbb |-> TRUE,xtag |-> [p |-> "none", r |-> "none"],rtag |-> [p |-> "none", r |-> "none"],minNull |-> TRUE]),
    ([prob |-> 0,ftag |-> [p |-> "none", r |-> "none"],keys |-> <<>>,ires |-> TRUE,iq0 |-> TRUE,l |-> 2,facts |-> (0 :> [nullity |-> 1, bad |-> {{}, {1}, {3}, {1, 3}}] @@ 1 :> [nullity |-> 1, bad |-> {{}}]),ix |-> TRUE,stage |-> 0,q0tag |-> [p |-> "none", r |-> "none"],bufOK |-> FALSE,reg |-> "ALL",served |-> [kind |-> "none", tag |-> [p |-> "none", r |-> "none"]],ctag |-> <<>>,iqbb |-> TRUE,xtag |-> [p |-> "none", r |-> "none"],rtag |-> [p |-> "none", r |-> "none"],minNull |-> TRUE]),
    ([prob |-> 0,ftag |-> [p |-> "none", r |-> "none"],keys |-> <<>>,ires |-> TRUE,iq0 |-> TRUE,l |-> 3,facts |-> (0 :> [nullity |-> 1, bad |-> {{}, {1}, {3}, {1, 3}}] @@ 1 :> [nullity |-> 1, bad |-> {{}}]),ix |-> TRUE,stage |-> 0,q0tag |-> [p |-> "none", r |-> "none"],bufOK |-> FALSE,reg |-> "ALL",served |-> [kind |-> "none", tag |-> [p |-> "none", r |-> "none"]],ctag |-> <<>>,iqbb |-> TRUE,xtag |-> [p |-> "none", r |-> "none"],rtag |-> [p |-> "none", r |-> "none"],minNull |-> TRUE])
    >>
----


=============================================================================

---- CONFIG TraceEnvelope_TTrace_1790821416 ----
CONSTANTS
    NU = 4
    Probs = { 0 , 1 }
    Regs = { "ALL" }
    Fixed = TRUE

INVARIANT
    _inv

CHECK_DEADLOCK
    \* CHECK_DEADLOCK off because of PROPERTY or INVARIANT above.
    FALSE

INIT
    _init

NEXT
    _next

CONSTANT
    _TETrace <- _trace

ALIAS
    _expression
=============================================================================
\* Generated on Thu Oct 01 02:23:38 UTC 2026