--------------------------- MODULE SurveySession ---------------------------
(* The abstract machine of gama-local as its users see it.                    *)
(*                                                                            *)
(* State: a survey (points with true lattice coordinates in an east-north-up  *)
(* frame and a role, observations as typed edges between points, description  *)
(* conventions: axes, sense of angles, units, parameters) and the result of   *)
(* its adjustment. Actions are the network constructor ChooseNet and the      *)
(* EDITS of property C07/C08/C09/C13/C14: each edit re-expresses or changes   *)
(* the survey and carries a LAW that says how the adjustment result must      *)
(* change. A behaviour is one session  net, edit_1, ..., edit_k ; TLC emits   *)
(* the sessions, the conformance harness (tools/session.py) materialises the  *)
(* input files, runs gama-local after every step and checks the law of every  *)
(* edit on the projected results.                                             *)
(*                                                                            *)
(* The result itself is not computed here (the networks are non-linear);      *)
(* what the specification fixes is                                            *)
(*   - Truth: for consistent observations (noise = 0) the adjusted            *)
(*     coordinates are the generating lattice coordinates, residuals are 0    *)
(*     (C06), whatever the description conventions are;                       *)
(*   - the law of every edit (Law(e)), as a record interpreted by the harness.*)
EXTENDS Integers, Sequences, FiniteSets, TLC, Json

CONSTANTS Templates,    \* subset of template names
          MaxEdits,     \* length of a session
          EditKinds,    \* subset of the edit kinds enabled
          NoiseSet,     \* subset of Noises admitted (0 = consistent observations)
          KeepNet, KeepEdit, Seed   \* thinning

(* ------------------------------------------------------------- templates *)
(* point: [id, e, n, u, role] role: "fix" | "unk" ; coordinates in metres     *)
P(id, e, n, u, role) == [id |-> id, e |-> e, n |-> n, u |-> u, role |-> role]
(* observation candidate: [t, from, to, to2]                                  *)
O(t, f, to) == [t |-> t, from |-> f, to |-> to, to2 |-> ""]
A3(f, bs, fs) == [t |-> "angle", from |-> f, to |-> bs, to2 |-> fs]

FreeTemplates == {"free2d", "freevec3d", "freelev1d"}        \* no fixed point: the datum is defined by the constrained points
Template(name) ==
  CASE name = "tri2d" ->
       [dim |-> 2,
        pts |-> <<P("A", 1000, 1000, 0, "fix"), P("B", 1400, 1300, 0, "fix"), P("C", 1000, 1300, 0, "unk"), P("D", 1300, 1000, 0, "unk")>>,
        mand |-> <<O("direction", "A", "B"), O("direction", "A", "C"), O("direction", "A", "D"), O("distance", "A", "C"),
                   O("direction", "B", "A"), O("direction", "B", "C"), O("direction", "B", "D"), O("distance", "B", "D")>>,
        opt |-> <<O("direction", "C", "A"), O("direction", "C", "B"), O("direction", "C", "D"), O("distance", "C", "D"),
                  A3("D", "A", "B"), O("azimuth", "A", "B"), O("distance", "D", "A")>>]
    [] name = "trav2d" ->
       [dim |-> 2,
        pts |-> <<P("A", 5000, 2000, 0, "fix"), P("B", 5600, 2800, 0, "fix"), P("P1", 5300, 2000, 0, "unk"), P("P2", 5300, 2400, 0, "unk"), P("P3", 5600, 2400, 0, "unk")>>,
        mand |-> <<A3("A", "B", "P1"), O("distance", "A", "P1"), A3("P1", "A", "P2"), O("distance", "P1", "P2"),
                   A3("P2", "P1", "P3"), O("distance", "P2", "P3"), A3("P3", "P2", "B"), O("distance", "P3", "B")>>,
        opt |-> <<A3("B", "P3", "A"), O("distance", "A", "P2"), O("azimuth", "P2", "B"), O("direction", "P2", "A"), O("direction", "P2", "B")>>]
    [] name = "dist2d" ->
       [dim |-> 2,
        pts |-> <<P("A", 0, 0, 0, "fix"), P("B", 800, 0, 0, "fix"), P("C", 0, 600, 0, "fix"), P("Q", 300, 400, 0, "unk"), P("R", 600, 450, 0, "unk")>>,
        mand |-> <<O("distance", "A", "Q"), O("distance", "B", "Q"), O("distance", "C", "Q"),
                   O("distance", "A", "R"), O("distance", "B", "R"), O("distance", "C", "R")>>,
        opt |-> <<O("distance", "Q", "R"), O("direction", "Q", "A"), O("direction", "Q", "R"), O("direction", "Q", "B")>>]
    [] name = "polar3d" ->
       [dim |-> 3,
        pts |-> <<P("A", 2000, 3000, 250, "fix"), P("B", 2300, 3400, 262, "fix"), P("C", 2000, 3400, 274, "unk"), P("D", 2300, 3000, 238, "unk")>>,
        mand |-> <<O("direction", "A", "B"), O("direction", "A", "C"), O("direction", "A", "D"),
                   O("s-distance", "A", "C"), O("z-angle", "A", "C"), O("s-distance", "A", "D"), O("z-angle", "A", "D"),
                   O("direction", "B", "A"), O("direction", "B", "C"), O("direction", "B", "D")>>,
        opt |-> <<O("s-distance", "B", "C"), O("z-angle", "B", "D"), O("dh", "C", "D"), O("dh", "A", "C"), O("distance", "B", "D"), O("z-angle", "C", "D")>>]
    [] name = "vec3d" ->
       [dim |-> 3,
        pts |-> <<P("A", 100, 200, 50, "fix"), P("B", 400, 600, 80, "unk"), P("C", 700, 200, 20, "unk"), P("D", 400, 200, 60, "unk")>>,
        mand |-> <<O("vector", "A", "B"), O("vector", "B", "C"), O("vector", "A", "D")>>,
        opt |-> <<O("vector", "C", "A"), O("vector", "D", "C"), O("coords", "B", ""), O("dh", "B", "D"), O("s-distance", "A", "C")>>]
    [] name = "fstat3d" ->         \* free station: all observations are made FROM the unknown point
       [dim |-> 3,
        pts |-> <<P("T1", 3000, 4000, 310, "fix"), P("T2", 3400, 4300, 325, "fix"), P("T3", 3000, 4600, 298, "fix"), P("T4", 2700, 4200, 305, "fix"),
                  P("S", 3100, 4300, 312, "unk")>>,
        mand |-> <<O("direction", "S", "T1"), O("direction", "S", "T2"), O("direction", "S", "T3"),
                   O("s-distance", "S", "T1"), O("s-distance", "S", "T2"), O("z-angle", "S", "T1"), O("z-angle", "S", "T2")>>,
        opt |-> <<O("direction", "S", "T4"), O("s-distance", "S", "T3"), O("z-angle", "S", "T3"), O("s-distance", "S", "T4"), O("z-angle", "S", "T4")>>]
    [] name = "fstat2d" ->         \* 2-D free station / resection
       [dim |-> 2,
        pts |-> <<P("T1", 3000, 4000, 0, "fix"), P("T2", 3400, 4300, 0, "fix"), P("T3", 3000, 4600, 0, "fix"), P("T4", 2700, 4200, 0, "fix"),
                  P("S", 3100, 4300, 0, "unk"), P("R", 3200, 4100, 0, "unk")>>,
        mand |-> <<O("direction", "S", "T1"), O("direction", "S", "T2"), O("direction", "S", "T3"), O("distance", "S", "T1"),
                   O("direction", "R", "T1"), O("direction", "R", "T2"), O("direction", "R", "T4"), O("direction", "R", "T3")>>,
        opt |-> <<O("direction", "S", "T4"), O("distance", "S", "T2"), O("direction", "S", "R"), O("direction", "R", "S"), O("distance", "R", "S")>>]
    [] name = "free2d" ->          \* no fixed point: a free network (datum by constrained points)
       [dim |-> 2,
        pts |-> <<P("A", 1000, 1000, 0, "unk"), P("B", 1400, 1300, 0, "unk"), P("C", 1000, 1300, 0, "unk"), P("D", 1300, 1000, 0, "unk")>>,
        mand |-> <<O("direction", "A", "B"), O("direction", "A", "C"), O("direction", "A", "D"), O("distance", "A", "C"), O("distance", "A", "B"),
                   O("direction", "B", "A"), O("direction", "B", "C"), O("direction", "B", "D"), O("distance", "B", "D"),
                   O("direction", "C", "A"), O("direction", "C", "B"), O("direction", "C", "D")>>,
        opt |-> <<O("distance", "C", "D"), O("azimuth", "A", "B"), A3("D", "A", "B")>>]
    [] name = "vecmix3d" ->        \* vectors between pairs of new points come first (their unknowns are numbered x, x, y, y, z, z),
                                   \* slope distances make the problem non-linear
       [dim |-> 3,
        pts |-> <<P("F", 0, 0, 0, "fix"), P("A", 300, 400, 10, "unk"), P("B", 700, 100, 30, "unk"), P("C", 200, -500, -20, "unk"), P("D", -400, 300, 15, "unk")>>,
        mand |-> <<O("vector", "A", "B"), O("vector", "C", "D"), O("vector", "F", "A"), O("vector", "B", "C"),
                   O("s-distance", "F", "B"), O("s-distance", "F", "C"), O("s-distance", "F", "D")>>,
        opt |-> <<O("s-distance", "A", "C"), O("s-distance", "A", "D"), O("dh", "B", "D"), O("vector", "D", "A")>>]
    [] name = "freevec3d" ->       \* free 3-D network of GNSS vectors (defect 3: translations); the first vector joins two new points
       [dim |-> 3,
        pts |-> <<P("A", 100, 200, 50, "unk"), P("B", 400, 600, 80, "unk"), P("C", 700, 200, 20, "unk"), P("D", 400, 200, 60, "unk"), P("E", 900, 700, 35, "unk")>>,
        mand |-> <<O("vector", "A", "B"), O("vector", "B", "C"), O("vector", "C", "D"), O("vector", "D", "E")>>,
        opt |-> <<O("vector", "E", "A"), O("vector", "A", "C"), O("vector", "B", "D"), O("s-distance", "A", "D")>>]
    [] name = "freelev1d" ->       \* free levelling network (defect 1)
       [dim |-> 1,
        pts |-> <<P("A", 0, 0, 100, "unk"), P("B", 0, 0, 110, "unk"), P("C", 0, 0, 125, "unk"), P("D", 0, 0, 95, "unk")>>,
        mand |-> <<O("dh", "A", "B"), O("dh", "B", "C"), O("dh", "C", "D")>>,
        opt |-> <<O("dh", "D", "A"), O("dh", "A", "C"), O("dh", "B", "D")>>]
    [] OTHER ->                    \* "lev1d": heights only
       [dim |-> 1,
        pts |-> <<P("A", 0, 0, 100, "fix"), P("B", 0, 0, 110, "unk"), P("C", 0, 0, 125, "unk"), P("D", 0, 0, 95, "unk")>>,
        mand |-> <<O("dh", "A", "B"), O("dh", "B", "C"), O("dh", "C", "D")>>,
        opt |-> <<O("dh", "D", "A"), O("dh", "A", "C"), O("dh", "B", "D")>>]

(* ------------------------------------------------------------------ state *)
VARIABLES phase, net, edits
vars == <<phase, net, edits>>

OptMasks(k) == {m \in SUBSET (1..k) : TRUE}
Orients == {0, 37, 1234567, 3999999}          \* circle zero in 1e-4 gon: 0, 37e-4?? see harness: value / 1e4 gon
Noises == 0..3                                 \* 0 = consistent observations; k = noise pattern k
AxesAll == {"ne", "sw", "es", "wn", "en", "nw", "se", "ws"}

RECURSIVE SumSet(_)
SumSet(S) == IF S = {} THEN 0 ELSE LET x == CHOOSE y \in S : TRUE IN x + SumSet(S \ {x})
AxIdx(ax) == CASE ax = "ne" -> 1 [] ax = "sw" -> 2 [] ax = "es" -> 3 [] ax = "wn" -> 4 [] ax = "en" -> 5 [] ax = "nw" -> 6 [] ax = "se" -> 7 [] OTHER -> 8
RECURSIVE BitSum(_)
BitSum(S) == IF S = {} THEN 0 ELSE LET x == CHOOSE y \in S : TRUE IN (IF x = 1 THEN 1 ELSE IF x = 2 THEN 2 ELSE IF x = 3 THEN 4 ELSE IF x = 4 THEN 8 ELSE IF x = 5 THEN 16 ELSE IF x = 6 THEN 32 ELSE 64) + BitSum(S \ {x})
HashNet(t, m, o, nz, ax, lh) == ((((Len(t) * 31 + BitSum(m)) * 37 + (o % 97)) * 41 + nz) * 43 + AxIdx(ax)) * 2 + (IF lh THEN 1 ELSE 0)

Init == phase = "net" /\ net = [t |-> "none"] /\ edits = <<>>

ChooseNet ==
  /\ phase = "net"
  /\ \E t \in Templates, ax \in AxesAll, lh \in BOOLEAN, o \in Orients, nz \in NoiseSet :
       \E m \in OptMasks(Len(Template(t).opt)) :
         /\ (HashNet(t, m, o, nz, ax, lh) + Seed) % KeepNet = 0
         /\ net' = [t |-> t, opt |-> m, axes |-> ax, lefthanded |-> lh, orient |-> o, noise |-> nz]
  /\ phase' = "edit"
  /\ UNCHANGED edits

(* ------------------------------------------------------------------ edits *)
(* every edit is a record with field k (kind) and parameters                 *)
Unknowns(t) == {Template(t).pts[i].id : i \in {j \in 1..Len(Template(t).pts) : Template(t).pts[j].role = "unk"}}
LastObs == 99         \* stands for the observation that comes last in the input document (last row of the project equations)
EditsOf(kind) ==
  CASE kind = "Translate" -> {[k |-> "Translate", de |-> d[1], dn |-> d[2], du |-> d[3]] :
                                d \in {<<5000000, -1000000, 300>>, <<-123, 456, -7>>, <<700000, 700000, 0>>}}
    [] kind = "RotateCircle" -> {[k |-> "RotateCircle", w |-> w] : w \in {1, 999997, 1999999, 2000003, 3999998, 1234567}}   \* 1e-4 gon
    [] kind = "Permute" -> {[k |-> "Permute", s |-> s] : s \in 1..3}
    [] kind = "Rename" -> {[k |-> "Rename", s |-> s] : s \in 1..4}      \* 4: identifiers and description with characters that must be escaped in XML
    [] kind = "SwitchUnits" -> {[k |-> "SwitchUnits"]}
    [] kind = "SwapEnds" -> {[k |-> "SwapEnds"]}
    [] kind = "MirrorAxes" -> {[k |-> "MirrorAxes", axes |-> ax, lefthanded |-> lh] : ax \in AxesAll, lh \in BOOLEAN}
    [] kind = "SetAlgorithm" -> {[k |-> "SetAlgorithm", alg |-> a] : a \in {"envelope", "cholesky", "gso", "svd"}}
    [] kind = "SetSigmaApr" -> {[k |-> "SetSigmaApr", num |-> f[1], den |-> f[2], act |-> a] : f \in {<<1, 2>>, <<5, 2>>, <<10, 1>>}, a \in {"apriori", "aposteriori"}}
    [] kind = "SetConfPr" -> {[k |-> "SetConfPr", p |-> p] : p \in {500, 900, 990, 999}}          \* per mille
    [] kind = "SetCovBand" -> {[k |-> "SetCovBand", band |-> b] : b \in {-1, 0, 1, 3, 100}}
    [] kind = "OmitApprox" -> {[k |-> "OmitApprox", s |-> s] : s \in 1..6}     \* 1..3 whole points; 4, 5 heights only; 6 x, y only (3-D templates)
    [] kind = "PerturbApprox" -> {[k |-> "PerturbApprox", mm |-> d] : d \in {30, 100, 600}}   \* 30, 100: well inside tol-abs = 1000 mm;
                                                                                            \* 600: tol-abs is raised, several linearization iterations are needed
    [] kind = "ExportReimport" -> {[k |-> "ExportReimport", rounds |-> r] : r \in 1..3}
    [] kind = "ChangeDatum" -> {[k |-> "ChangeDatum", s |-> s] : s \in 1..5}
    [] kind = "AddConsistentObs" -> {[k |-> "AddConsistentObs", s |-> s] : s \in 1..3}
    [] kind = "ReplaceCovByStdev" -> {[k |-> "ReplaceCovByStdev"]}
    [] kind = "AttachHeights" -> {[k |-> "AttachHeights", s |-> s] : s \in 1..4}     \* 1: instrument heights, 2: both, 3: small target heights only, 4: small instrument heights only
    [] kind = "MakeFree" -> {[k |-> "MakeFree", s |-> s] : s \in 1..6}
    [] kind = "Isolate" -> {[k |-> "Isolate", s |-> s] : s \in 1..5}      \* 1, 2: sight in the first quadrant (2: with a height difference); 3, 4: second / fourth quadrant; 5: the single element is an angle whose foresight is the new point
    [] kind = "WeakPoint" -> {[k |-> "WeakPoint", s |-> s] : s \in 1..4}
         \* a further point tied to the network by observations of practically no weight (standard deviation 20 m): its standard deviation exceeds
         \* gama-local's limit of 10 m, the point is removed ("huge covariance") and the network is adjusted again without it. 1: the point and its
         \* observations come first (its unknowns are numbered first and every other unknown is renumbered after the removal), 2: they come last;
         \* 3, 4: the same with a standard deviation of 200 m, i.e. a weight of 2.5e-9 relative to sigma-apr 10 - below sqrt(machine epsilon)
    [] kind = "LoneSet" -> {[k |-> "LoneSet", s |-> s] : s \in 1..4}
         \* a further direction set whose readings all go to ONE target (1: a single reading, 2: two readings to the second point, 3: three readings to the
         \* last point, 4: two readings taken at the last point): such a set carries no information beyond its own orientation and gama-local excludes it
    [] kind = "InputFeatures" -> {[k |-> "InputFeatures", s |-> s] : s \in 1..9}
         \* optional forms of the input language: 1 a <coordinates> cluster with one point observed in x,y only followed by another observed in z only,
         \* 2 <dh> with dist and stdev, 3 <dh> with dist only, 4 directions with from_dh / to_dh, 5 extern attributes, 6 angles with from_dh / bs_dh / fs_dh, 7 latitude, ellipsoid, algorithm and cov-band in <parameters>, 8 <obs> clusters with a banded covariance matrix, 9 the same written in degrees
    [] kind = "Blunder" -> {[k |-> "Blunder", obs |-> i, pct |-> pc, tol |-> tl, sig |-> sg] : i \in 1..8 \cup {LastObs}, pc \in {99, 101, 300}, tl \in {1, 10, 1000}, sg \in {10, 3, 40}}
    [] kind = "ExcludeVsDelete" -> {[k |-> "ExcludeVsDelete", s |-> s] : s \in 1..3}
    [] OTHER -> {}

(* ---- ill-posed networks (C20): MakeFree(s) turns every fixed point into an unknown one and
   constrains  s=1: nothing, s=2: the first point, s=3: the first two points, s=4: all points,
   s=5 (3-D): only the heights of all points, s=6 (3-D): only x,y of the first two points.
   Datum defect of the templates: 2-D with distances and directions 3 (2 with an azimuth), 3-D one
   more for the height, levelling 1. The constraint set resolves it iff it has enough coordinates
   AND spans every datum transformation. *)
HasAz == \E i \in net.opt : Template(net.t).opt[i].t = "azimuth"
Defect2D == IF HasAz THEN 2 ELSE 3
Adjustable(e) ==
  IF e.k # "MakeFree" THEN TRUE
  ELSE CASE net.t = "lev1d" -> e.s \in {2, 3, 4}
         [] Template(net.t).dim = 2 -> e.s \in {3, 4} \/ (e.s = 2 /\ Defect2D = 2)   \* one point spans the two translations
         [] OTHER -> e.s \in {3, 4}

(* the law of an edit: how the new result relates to the previous one.
   coords : "same" | "shift" | "axes" | "datum" | "truth"
   obs    : "same" | "perm" | "subset"   ; stats : "same" | "sigma" | "conf" ; cov : "same" | "band" | "datum" *)
Law(e) ==
  CASE e.k = "Translate" -> [coords |-> "shift", obs |-> "same", stats |-> "same", cov |-> "same"]
    [] e.k = "RotateCircle" -> [coords |-> "same", obs |-> "rotdir", stats |-> "same", cov |-> "same"]
    [] e.k = "Permute" -> [coords |-> "same", obs |-> "perm", stats |-> "same", cov |-> "perm"]
    [] e.k = "Rename" -> [coords |-> "rename", obs |-> "rename", stats |-> "same", cov |-> "perm"]
    [] e.k = "SwitchUnits" -> [coords |-> "same", obs |-> "same", stats |-> "same", cov |-> "same"]
    [] e.k = "SwapEnds" -> [coords |-> "same", obs |-> "swap", stats |-> "same", cov |-> "same"]
    [] e.k = "MirrorAxes" -> [coords |-> "axes", obs |-> "axes", stats |-> "same", cov |-> "axes"]
    [] e.k = "SetAlgorithm" -> [coords |-> "same", obs |-> "same", stats |-> "same", cov |-> "same"]
    [] e.k = "SetSigmaApr" -> [coords |-> "same", obs |-> "sigma", stats |-> "sigma", cov |-> "sigma"]
    [] e.k = "SetConfPr" -> [coords |-> "same", obs |-> "same", stats |-> "conf", cov |-> "same"]
    [] e.k = "SetCovBand" -> [coords |-> "same", obs |-> "same", stats |-> "same", cov |-> "band"]
    [] e.k = "OmitApprox" -> [coords |-> "same", obs |-> "same", stats |-> "same", cov |-> "same"]
    [] e.k = "PerturbApprox" -> [coords |-> "same", obs |-> "same", stats |-> "same", cov |-> "same"]
    [] e.k = "ExportReimport" -> [coords |-> "same", obs |-> "same", stats |-> "same", cov |-> "same"]
    [] e.k = "ChangeDatum" -> [coords |-> "datum", obs |-> "same", stats |-> "same", cov |-> "datum"]
    [] e.k = "AddConsistentObs" -> [coords |-> "truth", obs |-> "superset", stats |-> "any", cov |-> "any"]
    [] e.k = "MakeFree" -> [coords |-> "any", obs |-> "any", stats |-> "any", cov |-> "any", adjustable |-> Adjustable(e)]
    [] e.k = "WeakPoint" -> [coords |-> "same", obs |-> "same", stats |-> "same", cov |-> "same", removed |-> "W"]
    [] e.k = "LoneSet" -> [coords |-> "same", obs |-> "same", stats |-> "same", cov |-> "same"]
    [] e.k = "Isolate" -> [coords |-> "same", obs |-> "superset", stats |-> "any", cov |-> "any", removed |-> "X"]
    [] e.k = "Blunder" -> [coords |-> "any", obs |-> "any", stats |-> "any", cov |-> "any",
                           excluded |-> (e.pct > 100), equals |-> (IF e.pct > 100 THEN "Delete" ELSE "Keep")]
    [] e.k = "InputFeatures" -> [coords |-> "any", obs |-> "any", stats |-> "any", cov |-> "any"]
    [] e.k = "AttachHeights" -> [coords |-> "same", obs |-> "any", stats |-> "any", cov |-> "any"]
    [] e.k = "ReplaceCovByStdev" -> [coords |-> "same", obs |-> "same", stats |-> "same", cov |-> "same"]
    [] OTHER -> [coords |-> "same", obs |-> "same", stats |-> "same", cov |-> "same"]

(* applicability of an edit to a network *)
Applicable(e) ==
  /\ (e.k = "MakeFree" => net.t \in {"tri2d", "trav2d", "polar3d", "lev1d"} /\ (e.s \in {5, 6} => Template(net.t).dim = 3))
  /\ (e.k = "Blunder" => net.noise = 0 /\ net.t \in {"tri2d", "dist2d", "polar3d", "fstat2d", "fstat3d", "lev1d"}
                          /\ (e.obs <= Len(Template(net.t).mand) \/ e.obs = LastObs))
  /\ (e.k = "InputFeatures" => /\ (e.s = 1 => net.t \in {"polar3d", "vec3d", "vecmix3d"})
                                /\ (e.s \in {2, 3} => net.t \in {"lev1d", "freelev1d", "polar3d", "vec3d", "vecmix3d"})
                                /\ (e.s = 4 => net.t \in {"tri2d", "polar3d", "fstat3d", "fstat2d"})
                                /\ (e.s = 6 => net.t \in {"tri2d", "trav2d"})
                                /\ (e.s \in {8, 9} => net.t \in {"tri2d", "trav2d", "dist2d", "polar3d", "fstat2d", "fstat3d"}))
  /\ (e.k = "WeakPoint" => Len(edits) = 0 /\ net.t \in {"lev1d", "freelev1d", "tri2d", "dist2d", "free2d", "trav2d"})
  /\ (e.k = "LoneSet" => net.t \in {"tri2d", "trav2d", "dist2d", "polar3d", "fstat2d", "fstat3d"})
  /\ (e.k = "Isolate" => net.t \in {"tri2d", "dist2d", "polar3d"} /\ (e.s = 5 => net.t \in {"tri2d", "dist2d"}))
  /\ (e.k = "ChangeDatum" => net.t \in FreeTemplates)
  /\ (e.k = "AddConsistentObs" => net.noise = 0)
  /\ (e.k = "OmitApprox" => net.noise = 0 /\ net.t \notin FreeTemplates /\ (e.s >= 4 => Template(net.t).dim = 3))
  /\ (e.k = "PerturbApprox" => net.t \notin FreeTemplates)    \* the datum of a free network is defined by its approximate coordinates
  /\ (e.k = "AttachHeights" => net.t \in {"polar3d", "fstat3d"} /\ net.noise = 0)
  /\ (e.k = "RotateCircle" => net.t \notin {"lev1d", "vec3d", "vecmix3d", "freevec3d", "freelev1d"})
  /\ (e.k = "MirrorAxes" => net.t \notin {"lev1d", "freelev1d"})
  /\ (e.k = "SwitchUnits" => net.t \notin {"lev1d", "vec3d", "vecmix3d", "freevec3d", "freelev1d"})

HashEdit(e) == Len(e.k) * 11 + (IF "s" \in DOMAIN e THEN e.s * 7 ELSE 0) + (IF "w" \in DOMAIN e THEN e.w % 89 ELSE 0)
               + (IF "axes" \in DOMAIN e THEN (IF e.axes \in {"ne", "sw", "es", "wn"} THEN 2 ELSE 5) + (IF e.axes \in {"ne", "en", "se", "es"} THEN 1 ELSE 0) ELSE 0)

DoEdit ==
  /\ phase = "edit" /\ Len(edits) < MaxEdits
  /\ \E kind \in EditKinds : \E e \in EditsOf(kind) :
       /\ Applicable(e)
       /\ ((HashEdit(e) * 7) + Len(edits) + Seed + (HashNet(net.t, net.opt, net.orient, net.noise, net.axes, net.lefthanded) % 1009)) % KeepEdit = 0
       /\ edits' = Append(edits, [e |-> e, law |-> Law(e)])
  /\ UNCHANGED <<phase, net>>

Next == ChooseNet \/ DoEdit
Spec == Init /\ [][Next]_vars

(* ---------------------------------------------------------------- emission *)
NetRecord ==
  LET T == Template(net.t) IN
  [t |-> net.t, dim |-> T.dim, pts |-> T.pts,
   obs |-> T.mand \o [i \in 1..Cardinality(net.opt) |->
                        T.opt[CHOOSE j \in net.opt : Cardinality({x \in net.opt : x < j}) = i - 1]],
   allopt |-> T.opt,
   axes |-> net.axes, lefthanded |-> net.lefthanded, orient |-> net.orient, noise |-> net.noise]

(* a session is emitted when it is complete (MaxEdits edits) - or immediately for MaxEdits = 0 *)
Emit == (phase = "edit" /\ Len(edits) = MaxEdits) => PrintT("CASE " \o ToJson([net |-> NetRecord, edits |-> edits]))

(* the truth every consistent network must reproduce (C06): adjusted = generating coordinates *)
TruthLaw == [adjusted |-> "pts", residuals |-> 0, removed |-> {}]
=============================================================================
