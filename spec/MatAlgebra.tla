------------------------------ MODULE MatAlgebra ------------------------------
(* Algebra of the dense matrix library on small integer matrices (C15).         *)
(* A case is a pair A (r x k), B (k x c) with entries in -2..2 together with    *)
(* the exact product, rank, and for square A determinant and adjugate, all      *)
(* computed from the definitions in ExactLA. The harness checks with the real   *)
(* classes: A*B, trans, A+A-A, inv(A) det = adj (det # 0), pinv (the four       *)
(* Moore-Penrose conditions, rank), SVD (U W V' = A, orthonormal factors),      *)
(* Cholesky of N = A'A + I as SymMat / BandMat / CovMat (L D L' solves N x = y),*)
(* that every non-conforming operand pair raises an exception, and the scale    *)
(* law pinv(sA) = pinv(A)/s, inv(sA) = inv(A)/s, rank(sA) = rank(A). The laws   *)
(* of the definitions (Laws below: (AB)' = B'A' ...) are also evaluated on the   *)
(* lazily transposed operand classes TransMat / TransVec: trans(B)*trans(A),     *)
(* trans(A)*A, A*trans(A), sums, trans(A)*v, v*trans(A), trans(v)*A, trans(v)*v. *)
EXTENDS ExactLA, TLC, Json
CONSTANTS Keep, Seed
Vals == -2..2
Shapes == {<<1, 1, 1>>, <<2, 2, 2>>, <<2, 3, 2>>, <<3, 2, 3>>, <<3, 3, 3>>, <<3, 3, 1>>, <<1, 3, 3>>, <<2, 1, 3>>}    \* r, k, c
VARIABLES sh, A, B, phase
vars == <<sh, A, B, phase>>
Init == sh \in Shapes /\ A = <<>> /\ B = <<>> /\ phase = "A"
RowsOf(n) == [1..n -> Vals]
H(M) == SumN([i \in 1..Len(M) |-> SumN([j \in 1..Len(M[i]) |-> (M[i][j] + 3) * (i * 7 + j * 3)], Len(M[i]))], Len(M))
AddRowA == /\ phase = "A" /\ Len(A) < sh[1]
           /\ \E row \in RowsOf(sh[2]) : A' = Append(A, row)
           /\ (Len(A) = sh[1] - 1 => (H(A') + Seed) % Keep = 0)
           /\ phase' = IF Len(A) = sh[1] - 1 THEN "B" ELSE "A"
           /\ UNCHANGED <<sh, B>>
(* B is derived from A deterministically (two variants) to keep the space small *)
MkB(v) == [i \in 1..sh[2] |-> [j \in 1..sh[3] |-> ((i * 2 + j * v + A[1][1]) % 5) - 2]]
ChooseB == /\ phase = "B" /\ \E v \in {1, 3} : B' = MkB(v)
           /\ phase' = "done" /\ UNCHANGED <<sh, A>>
Next == AddRowA \/ ChooseB
Spec == Init /\ [][Next]_vars
Square == sh[1] = sh[2]
Case == [r |-> sh[1], k |-> sh[2], c |-> sh[3], A |-> A, B |-> B, AB |-> MatMul(A, B), rankA |-> Rank(A)]
        @@ (IF Square THEN [det |-> Det(A), adj |-> Adjugate(A)] ELSE [none |-> 0])
Emit == phase = "done" => PrintT("CASE " \o ToJson(Case))
(* laws of the definitions themselves, checked on every case *)
Laws == phase = "done" =>
          /\ Transpose(MatMul(A, B)) = MatMul(Transpose(B), Transpose(A))
          /\ (Square => MatMul(A, Adjugate(A)) = Scale(Det(A), Identity(sh[1])))
          /\ (Square => ((Det(A) # 0) <=> (Rank(A) = sh[1])))
          /\ Rank(A) = Rank(Transpose(A))
          /\ Rank(Scale(3, A)) = Rank(A)            \* rank, pseudo-inverse and inverse do not depend on the scale of A: the harness
                                                    \* repeats SVD rank, pinv and inv on 2^20 A and 2^-50 A (exact scalings)
=============================================================================
