---------------------------- MODULE TraceLocalNet ----------------------------
(* Trace validation of LocalNetwork life-cycle flags (property C04). The log    *)
(* holds one record per call made by harness/drv_localnet: history id, step,    *)
(* operation, argument, what RMABS / REFINE did, the m0 type in force and the   *)
(* four flags read through VerifProbe after the call. Every record must be a    *)
(* transition LocalNetModel!After allows from the flags of the previous record  *)
(* (a record with k = 1 starts from a new object), and every flag vector must   *)
(* be coherent.                                                                 *)
EXTENDS Integers, Sequences, TLC, Json, IOUtils
VARIABLES l, f
M == INSTANCE LocalNetModel WITH Nets <- {"n"}, MaxLen <- 0, Keep <- 1, Seed <- 0, Full <- 0, net <- "n", flags <- f, m0type <- "x", hist <- <<>>, rmabs <- FALSE, refined <- FALSE
TraceLog == ndJsonDeserialize(IOEnv.TRACE)
B(x) == x = 1
Flags(r) == <<B(r.flags[1]), B(r.flags[2]), B(r.flags[3]), B(r.flags[4])>>
Init == l = 1 /\ f = M!AllInvalid
Next == /\ l <= Len(TraceLog)
        /\ LET r == TraceLog[l]
               pre == IF r.k = 1 THEN M!AllInvalid ELSE f
           IN /\ Flags(r) \in M!After(pre, r.op, r.arg, r.m0type, r.did = 1)
              /\ M!Coherent(Flags(r))
              /\ f' = Flags(r)
        /\ l' = l + 1
Spec == Init /\ [][Next]_<<l, f>>
TraceAccepted == TLCGet("stats").diameter - 1 = Len(TraceLog)
=============================================================================
