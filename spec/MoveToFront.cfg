SPECIFICATION Spec
CONSTANTS N = 3
          Keys = {1, 2, 3, 4, 5}
INVARIANT BufsPermutation
INVARIANT NoDuplicateKeys
PROPERTY GetKeepsFront
CHECK_DEADLOCK FALSE
