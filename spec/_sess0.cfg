SPECIFICATION Spec
CONSTANTS Templates = {"tri2d", "trav2d", "dist2d", "polar3d", "vec3d", "lev1d", "free2d"}
          MaxEdits = 0
          EditKinds = {}
          KeepNet = 7
          KeepEdit = 1
          Seed = 1
INVARIANT Emit
CHECK_DEADLOCK FALSE
