----------------------------- MODULE LsqCases -----------------------------
(* Generator of exact least-squares problems (direction A).                 *)
(* A behaviour builds one adjustment problem step by step                   *)
(*   (family, n, m) -> rows of A -> right-hand side -> covariance layout    *)
(*   -> regularisation subset                                              *)
(* and the final state carries the exact certificate computed from the      *)
(* definitions in ExactLA: adjugate and determinant of every covariance     *)
(* block (weights P = adj(C)/det C), rank and integer null-space basis G of *)
(* A, and whether the chosen subset S resolves the defect.                  *)
(* With these, x is the weighted least-squares minimiser with minimal norm  *)
(* over S  iff  A'P(Ax-b) = 0  and  G_S' x_S = 0 ; Q is the cofactor matrix *)
(* of that solution iff Q = Q', NQN = N, QNQ = Q, G_S' Q = 0.               *)
EXTENDS ExactLA, TLC, Json

CONSTANTS Families,     \* subset of {"gen", "lev"}
          NSet, MSet,   \* admitted numbers of unknowns / observations
          KMat, KVar,   \* thinning moduli (1 = keep everything)
          Seed

VARIABLES phase, fam, n, m, rows, b, lay, S

vars == <<phase, fam, n, m, rows, b, lay, S>>

(* ---- row universes ---- *)
RECURSIVE Digits3(_, _)
Digits3(id, k) == IF k = 0 THEN <<>> ELSE Digits3(id \div 3, k - 1) \o <<(id % 3) - 1>>
GenRow(id, k) == Digits3(id, k)                          \* id in 0..3^k-1, entries -1..1
Pow3(k) == IF k = 1 THEN 3 ELSE IF k = 2 THEN 9 ELSE IF k = 3 THEN 27 ELSE 81
GenIds(k) == {id \in 0..(Pow3(k) - 1) : id # (Pow3(k) - 1) \div 2}   \* without the zero row

(* levelling rows: height difference from point i to point j, row = e_j - e_i *)
LevPairs(k) == {p \in (1..k) \X (1..k) : p[1] # p[2]}
LevRow(p, k) == [j \in 1..k |-> IF j = p[2] THEN 1 ELSE IF j = p[1] THEN -1 ELSE 0]
LevId(p, k) == (p[1] - 1) * k + (p[2] - 1)
LevIds(k) == {LevId(p, k) : p \in LevPairs(k)}
LevOfId(id, k) == LevRow(<<(id \div k) + 1, (id % k) + 1>>, k)

RowIds(f, k) == IF f = "gen" THEN GenIds(k) ELSE LevIds(k)
RowOf(f, id, k) == IF f = "gen" THEN GenRow(id, k) ELSE LevOfId(id, k)

Mat == [i \in 1..Len(rows) |-> RowOf(fam, rows[i], n)]

(* ---- right-hand sides ---- *)
B1 == <<1, 2, -1, 3, -2, 1, 2, -3>>
B2 == <<0, 1, 1, -2, 2, -1, 3, 1>>
XT == <<1, -1, 2, -2>>
BVec(k) == IF k = 1 THEN [i \in 1..m |-> B1[i]]
           ELSE IF k = 2 THEN [i \in 1..m |-> B2[i]]
           ELSE MatVec(Mat, [j \in 1..n |-> XT[j]])      \* consistent: zero residuals

(* ---- covariance catalogue (symmetric positive definite, small integers) ---- *)
Cat(d, v) ==
  IF d = 1 THEN (IF v % 3 = 0 THEN [band |-> 0, C |-> << <<1>> >>]
                 ELSE IF v % 3 = 1 THEN [band |-> 0, C |-> << <<4>> >>]
                 ELSE [band |-> 0, C |-> << <<2>> >>])
  ELSE IF d = 2 THEN (IF v % 3 = 0 THEN [band |-> 1, C |-> << <<2, 1>>, <<1, 2>> >>]
                      ELSE IF v % 3 = 1 THEN [band |-> 0, C |-> << <<1, 0>>, <<0, 4>> >>]
                      ELSE [band |-> 1, C |-> << <<4, -2>>, <<-2, 5>> >>])
  ELSE IF d = 3 THEN (IF v % 4 = 0 THEN [band |-> 1, C |-> << <<2, 1, 0>>, <<1, 2, 1>>, <<0, 1, 2>> >>]
                      ELSE IF v % 4 = 1 THEN [band |-> 2, C |-> << <<4, 2, 1>>, <<2, 3, 1>>, <<1, 1, 2>> >>]
                      ELSE IF v % 4 = 2 THEN [band |-> 2, C |-> << <<4, 0, 1>>, <<0, 5, 1>>, <<1, 1, 6>> >>]      \* a zero inside the band
                      ELSE [band |-> 0, C |-> << <<1, 0, 0>>, <<0, 4, 0>>, <<0, 0, 9>> >>])
  ELSE IF d = 4 THEN (IF v % 5 = 4 THEN [band |-> 2, C |-> << <<4, 0, 1, 0>>, <<0, 5, 1, 1>>, <<1, 1, 6, 2>>, <<0, 1, 2, 5>> >>]   \* zeros inside the band
                      ELSE IF v % 4 = 0 THEN [band |-> 1, C |-> << <<2, 1, 0, 0>>, <<1, 2, 1, 0>>, <<0, 1, 2, 1>>, <<0, 0, 1, 2>> >>]
                      ELSE IF v % 4 = 1 THEN [band |-> 2, C |-> << <<4, 1, 1, 0>>, <<1, 4, 1, 1>>, <<1, 1, 4, 1>>, <<0, 1, 1, 4>> >>]
                      ELSE IF v % 4 = 2 THEN [band |-> 3, C |-> << <<5, 1, 1, 1>>, <<1, 5, 1, 1>>, <<1, 1, 5, 1>>, <<1, 1, 1, 5>> >>]
                      ELSE [band |-> 1, C |-> << <<4, -1, 0, 0>>, <<-1, 4, -1, 0>>, <<0, -1, 4, -1>>, <<0, 0, -1, 4>> >>])
  ELSE [band |-> 1, C |-> << <<3, 1, 0, 0, 0>>, <<1, 3, 1, 0, 0>>, <<0, 1, 3, 1, 0>>, <<0, 0, 1, 3, 1>>, <<0, 0, 0, 1, 3>> >>]

(* wide-band blocks (dim 6..8, band 2..4): diagonally dominant, hence positive definite;      *)
(* their adjugate is not computed (8! terms): W = <<>> and det = 0 tell the harness to apply   *)
(* inv(C) through its own dense Cholesky factor, which it verifies against C                   *)
BigC(d, w) == [i \in 1..d |-> [j \in 1..d |-> IF i = j THEN 10 + (i % 3)
                                              ELSE IF Abs(i - j) <= w THEN (IF (i + j) % 5 = 0 THEN 0 ELSE IF (i + j) % 3 = 0 THEN -1 ELSE 1) ELSE 0]]
BigBlock(d, w) == [dim |-> d, band |-> w, C |-> BigC(d, w), W |-> <<>>, det |-> 0]

RECURSIVE Comp(_)
Comp(k) == IF k = 0 THEN {<<>>}
           ELSE UNION {{<<d>> \o c : c \in Comp(k - d)} : d \in 1..Min2(k, 5)}
Layouts(k) == IF k <= 5 THEN Comp(k) \X (0..2)          \* composition of the rows into blocks x variant selector
              ELSE {<<<<k>>, w>> : w \in 2..4} \cup {<<<<k - 1, 1>>, w>> : w \in 2..3} \cup {<<<<2, k - 2>>, 3>>}    \* wide band blocks
Blocks(l) == [k \in 1..Len(l[1]) |->
               IF l[1][k] >= 6 THEN BigBlock(l[1][k], l[2]) ELSE IF l[1][k] = 5 /\ l[2] >= 3 THEN BigBlock(5, l[2]) ELSE
               LET c == Cat(l[1][k], l[2] + k) IN
               [dim |-> l[1][k], band |-> c.band, C |-> c.C,
                W |-> Adjugate(c.C), det |-> Det(c.C)]]

(* ---- thinning ---- *)
HashRows(r) == SumN([k \in 1..Len(r) |-> r[k] * (2 * k + 1)], Len(r))
RECURSIVE HashSeq(_, _)
HashSeq(s, k) == IF k = 0 THEN 0 ELSE s[k] * (3 * k + 2) + HashSeq(s, k - 1)
KeepMat(r) == (HashRows(r) + Seed + 7 * Len(r)) % KMat = 0
KeepVar(bk, l) == (HashRows(rows) + 5 * bk + 11 * l[2] + HashSeq(l[1], Len(l[1])) + Seed) % KVar = 0

(* ---- actions ---- *)
Init == /\ phase = "rows"
        /\ fam \in Families
        /\ n \in NSet
        /\ m \in MSet
        /\ (fam = "lev" => n >= 2)
        /\ (fam = "gen" => m <= 5)          \* many observations (wide band blocks): levelling rows only
        /\ rows = <<>> /\ b = <<>> /\ lay = <<>> /\ S = {}

AddRow == /\ phase = "rows" /\ Len(rows) < m
          /\ \E id \in RowIds(fam, n) :
               /\ (Len(rows) > 0 => id >= rows[Len(rows)])        \* canonical: sorted multiset
               /\ (Len(rows) = m - 1 => KeepMat(Append(rows, id)))
               /\ rows' = Append(rows, id)
          /\ phase' = IF Len(rows) = m - 1 THEN "rhs" ELSE "rows"
          /\ UNCHANGED <<fam, n, m, b, lay, S>>

ChooseRhs == /\ phase = "rhs"
             /\ \E bk \in 1..3, l \in Layouts(m) :
                  /\ KeepVar(bk, l)
                  /\ b' = BVec(bk)
                  /\ lay' = l
             /\ phase' = "minx"
             /\ UNCHANGED <<fam, n, m, rows, S>>

(* S = {} encodes "all unknowns" *)
ChooseS == /\ phase = "minx"
           /\ \E T \in SUBSET (1..n) :
                /\ T # (1..n)
                /\ (Rank(Mat) = n => Cardinality(T) <= 1 /\ T \subseteq {1})   \* regular: S is irrelevant, keep 2
                /\ S' = T
           /\ phase' = "done"
           /\ UNCHANGED <<fam, n, m, rows, b, lay>>

Next == AddRow \/ ChooseRhs \/ ChooseS

(* ---- certificate and emission ---- *)
SetToSortedSeq(T) == IF T = {} THEN <<>> ELSE
   CHOOSE s \in [1..Cardinality(T) -> T] : \A a, c \in 1..Cardinality(T) : a < c => s[a] < s[c]

Case ==
  LET A == Mat
      G == NullBasisN(A, n)
      SS == IF S = {} THEN 1..n ELSE S
  IN [fam |-> fam, n |-> n, m |-> m, A |-> A, b |-> b,
      blocks |-> Blocks(lay),
      rank |-> n - Len(G), G |-> G,
      S |-> SetToSortedSeq(S), all |-> (S = {}),
      adm |-> Admissible(G, SS)]

(* ---- the same problem as a levelling network for gama-local (Levelling) ----     *)
(* A row with one entry +-1 is a height difference between the fixed bench mark F  *)
(* and an unknown point, a row with two entries of opposite sign is a height       *)
(* difference between two unknown points. Unknown point j has the approximate      *)
(* height 100 + 10 j metres; the observed value is the approximate difference plus *)
(* b[i] millimetres, so the design matrix is A, the right-hand side is b (in mm)   *)
(* and the covariance blocks are in mm^2. Points of S are constrained (S = {}: all)*)
NonZero(r) == {j \in 1..Len(r) : r[j] # 0}
IsLevRow(r) == \/ Cardinality(NonZero(r)) = 1
               \/ (Cardinality(NonZero(r)) = 2 /\ Sum(r) = 0)
LevRepresentable == /\ \A i \in 1..m : IsLevRow(Mat[i])
                    /\ \A j \in 1..n : \E i \in 1..m : Mat[i][j] # 0     \* every point is observed
PName(j) == IF j = 0 THEN "F" ELSE IF j = 1 THEN "P1" ELSE IF j = 2 THEN "P2" ELSE IF j = 3 THEN "P3" ELSE "P4"
H0(j) == IF j = 0 THEN 1000000 ELSE 1000000 + 100000 * j           \* tenths of a millimetre
LevObs(i) ==
  LET r  == Mat[i]
      nz == NonZero(r)
      to == IF \E j \in nz : r[j] = 1 THEN CHOOSE j \in nz : r[j] = 1 ELSE 0
      fr == IF \E j \in nz : r[j] = -1 THEN CHOOSE j \in nz : r[j] = -1 ELSE 0
  IN [from |-> PName(fr), to |-> PName(to), val |-> H0(to) - H0(fr) + 10 * b[i]]
LevSurvey ==
  [points |-> [j \in 1..n |-> [id |-> PName(j), z |-> H0(j),
                               con |-> (S = {} \/ j \in S)]],
   fixed  |-> [id |-> "F", z |-> H0(0)],
   obs    |-> [i \in 1..m |-> LevObs(i)]]

CaseL == IF LevRepresentable THEN [c |-> Case, lev |-> LevSurvey] ELSE [c |-> Case]
Emit == phase = "done" => PrintT("CASE " \o ToJson(CaseL))

(* sanity of the certificate itself, checked on every emitted case *)
CertSound ==
  phase = "done" =>
    LET A == Mat
        G == NullBasisN(A, n)
    IN /\ \A k \in 1..Len(G) : MatVec(A, G[k]) = [i \in 1..m |-> 0]
       /\ Rank(A) + Len(G) = n
       /\ \A k \in 1..Len(Blocks(lay)) :
            LET B == Blocks(lay)[k] IN
            /\ (B.det # 0 => IsSPD(B.C) /\ MatMul(B.C, B.W) = Scale(B.det, Identity(B.dim)))
            /\ (B.det = 0 => IsSymmetric(B.C) /\ \A i \in 1..B.dim : B.C[i][i] > SumN([j \in 1..B.dim |-> IF j = i THEN 0 ELSE Abs(B.C[i][j])], B.dim))
            /\ \A i, j \in 1..B.dim : Abs(i - j) > B.band => B.C[i][j] = 0
=============================================================================
