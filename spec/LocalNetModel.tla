---------------------------- MODULE LocalNetModel ----------------------------
(* Life cycle of a GNU_gama::local::LocalNetwork object (property C04: every    *)
(* quantity a network object can be asked for has one value, whatever was asked *)
(* or set before). The object evaluates lazily in four stages                   *)
(*   1 revision of points, 2 revision of observations, 3 project equations,     *)
(*   4 adjustment                                                               *)
(* and keeps one validity flag per stage (tst_redbod_, tst_redmer_,             *)
(* tst_rov_opr_, tst_vyrovnani_). flags[i] = TRUE means stage i is valid.       *)
(* Operations of the public interface:                                          *)
(*   Q(q)      a query; it brings the object to the stage the answer needs      *)
(*   U(s)      update_points / _observations / _residuals / _adjustment         *)
(*   ALG(a)    set_algorithm: a new solver object, everything is invalid        *)
(*   M0(t)     choice of the reference standard deviation used in statistics:   *)
(*             the stored standard deviations of adjusted observations depend   *)
(*             on it, the adjustment stage is invalid                           *)
(*   CONF(p)   confidence probability                                           *)
(*   APR(m)    a priori reference standard deviation: the weights, hence the    *)
(*             project equations, depend on it                                  *)
(*   RMABS     remove_huge_abs_terms                                            *)
(*   REFINE    refine_adjustment (linearization iterations)                     *)
(* The module gives (1) the flag transition of every operation, used by the     *)
(* trace specification TraceLocalNet to validate flags logged from the real     *)
(* object, (2) the invariant Coherent, (3) the generator of histories that the  *)
(* harness replays, comparing every answer with a fresh object that was given   *)
(* the same configuration and content and asked only that question.             *)
EXTENDS Integers, Sequences, FiniteSets, TLC, Json
CONSTANTS Nets, MaxLen, Keep, Seed, Full

Queries == {"np", "nu", "no", "huge", "dof", "pvv", "m0", "cic", "x", "r", "sx", "sl"}
Algs == {"envelope", "gso", "svd", "cholesky"}
AllInvalid == <<FALSE, FALSE, FALSE, FALSE>>
(* stage a query needs; m0 and cic need the adjustment only with the a posteriori deviation *)
Need(q, m0type) ==
  CASE q = "np" -> 1
    [] q \in {"nu", "no", "huge"} -> 3
    [] q \in {"m0", "cic"} -> IF m0type = "aposteriori" THEN 4 ELSE 0
    [] OTHER -> 4
(* lazy evaluation up to a stage. project_equations() ends with update(Adjustment): building the equations invalidates stage 4 *)
Eval(f, level) ==
  CASE level = 0 -> f
    [] level = 1 -> <<TRUE, f[2], f[3], f[4]>>
    [] level = 3 -> IF f[3] THEN f ELSE <<TRUE, TRUE, TRUE, FALSE>>
    [] OTHER     -> IF f[4] THEN f ELSE <<TRUE, TRUE, TRUE, TRUE>>
Invalidate(f, s) == [i \in 1..4 |-> IF i >= s THEN FALSE ELSE f[i]]
StageNo(s) == CASE s = "Points" -> 1 [] s = "Observations" -> 2 [] s = "Residuals" -> 3 [] OTHER -> 4
(* flags after an operation; did = what RMABS / REFINE report (terms were removed / coordinates were refined) *)
After(f, op, arg, m0type, did) ==
  CASE op = "Q"      -> {Eval(f, Need(arg, m0type))}
    [] op = "U"      -> {Invalidate(f, StageNo(arg))}
    [] op = "ALG"    -> {AllInvalid}
    [] op = "M0"     -> {Invalidate(f, 4)}                           \* standard deviations stored with the adjustment depend on the m0 in use
    [] op = "CONF"   -> {f}
    [] op = "APR"    -> {Invalidate(f, 3)}                           \* the weights change: equations and adjustment are stale
    [] op = "RMABS"  -> {IF did THEN Invalidate(Eval(f, 3), 2) ELSE Eval(f, 3)}
    [] OTHER         -> {<<TRUE, TRUE, TRUE, TRUE>>, <<TRUE, TRUE, FALSE, FALSE>>}     \* REFINE ends after a test of the linearization or after moving the coordinates
Coherent(f) == (f[4] => f[3]) /\ (f[3] => f[2]) /\ (f[2] => f[1])

(* ---------------------------------------------------------------- generator of histories *)
VARIABLES net, flags, m0type, hist, rmabs, refined
vars == <<net, flags, m0type, hist, rmabs, refined>>
Init == net \in Nets /\ flags = AllInvalid /\ m0type = "file" /\ hist = <<>> /\ rmabs = FALSE /\ refined = FALSE
Ops == {<<"Q", q>> : q \in Queries} \cup {<<"U", s>> : s \in {"Points", "Observations", "Residuals", "Adjustment"}}
       \cup {<<"ALG", a>> : a \in Algs} \cup {<<"M0", t>> : t \in {"apriori", "aposteriori"}} \cup {<<"CONF", p>> : p \in {"0.9", "0.99"}}
       \cup {<<"APR", m>> : m \in {"5", "20"}} \cup {<<"RMABS", "">>, <<"REFINE", "">>}
H(h) == IF h = <<>> THEN 0 ELSE Len(h[Len(h)][1]) * 7 + Len(h[Len(h)][2]) * 13 + Len(h) * 31
Step == /\ Len(hist) < MaxLen
        /\ \E o \in Ops :
             /\ (o[1] = "RMABS" => ~rmabs /\ ~refined)              \* content changes in one canonical order: remove, then refine
             /\ (o[1] = "REFINE" => ~refined)
             /\ (o[1] = "APR" => ~rmabs /\ ~refined)
             /\ ((H(hist) + H(<<o>>) * 3 + Len(net) + Seed) % Keep = 0 \/ Len(hist) < Full)      \* histories up to length Full are all generated
             /\ hist' = Append(hist, o)
             /\ \E d \in BOOLEAN : \E g \in After(flags, o[1], o[2], IF m0type = "file" THEN "aposteriori" ELSE m0type, d) : flags' = g
             /\ m0type' = IF o[1] = "M0" THEN o[2] ELSE m0type
             /\ rmabs' = (rmabs \/ o[1] = "RMABS")
             /\ refined' = (refined \/ o[1] = "REFINE")
             /\ UNCHANGED net
Spec == Init /\ [][Step]_vars
FlagsCoherent == Coherent(flags)
Emit == (Len(hist) >= 2 /\ hist[Len(hist)][1] = "Q") => PrintT("CASE " \o ToJson([net |-> net, ops |-> hist]))
=============================================================================
