SPECIFICATION Spec
CONSTANTS NU = 3
          Probs = {"p1", "p2"}
          Regs = {"ALL", "S1", "S2"}
          AllReg = "ALL"
          NoProb = "none"
          NoReg = "none"
          Fixed = TRUE
INVARIANT TypeOK
INVARIANT CacheSound
INVARIANT KindMatchesKeySpace
INVARIANT ServedCurrent
INVARIANT StageFlags
INVARIANT ExceptionRepeatable
CHECK_DEADLOCK FALSE
