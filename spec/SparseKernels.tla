----------------------------- MODULE SparseKernels -----------------------------
(* Sparse kernels against their dense definitions (property C16).               *)
(* A case is a sparsity pattern: m rows over n columns, every row a set of      *)
(* columns entered in a chosen fill order, with position-coded non-zero integer *)
(* values. From the definitions TLC derives: the dense matrix, its transpose,   *)
(* the column graph (two columns are adjacent iff some row contains both), its  *)
(* connectivity (reachability from node 1), the normal matrix N = A'A and the   *)
(* exact rank. The harness builds the real SparseMatrix in that fill order and  *)
(* checks build / transpose / replicate, SparseMatrixGraph adjacency and        *)
(* connected(), that the reverse Cuthill-McKee ordering is a permutation with a *)
(* consistent inverse, that the envelope holds the permuted N inside its        *)
(* profile and zeros outside, that L D L' reconstructs it with exact zeros on   *)
(* dependent pivots (defect = n - rank), that solve and the sparse inverse      *)
(* satisfy N x = r and N Q N = N.                                               *)
EXTENDS ExactLA, TLC, Json
CONSTANTS MaxM, MaxN, Keep, Seed,
          BigN, BigM, KeepBig        \* second family: networks of BigN columns whose rows are pairs / triples of columns (edges), BigM rows
VARIABLES n, rows, order
vars == <<n, rows, order>>
Val(i, j) == ((i * 3 + j * 5) % 4) + 1
Init == n \in (1..MaxN) \cup BigN /\ rows = <<>> /\ order \in {"asc", "desc", "rot"}
AddRow == /\ n <= MaxN /\ Len(rows) < MaxM
          /\ \E S \in (SUBSET (1..n)) \ {{}} : rows' = Append(rows, S)
          /\ UNCHANGED <<n, order>>
(* larger patterns (profiles with structure, disconnected parts, rank defects of free networks): every row joins two or  *)
(* three columns; rows are added in increasing code so that a set of rows is generated once                            *)
Code(S) == SumN([j \in 1..n |-> IF j \in S THEN (IF j = 1 THEN 1 ELSE IF j = 2 THEN 2 ELSE IF j = 3 THEN 4 ELSE IF j = 4 THEN 8 ELSE IF j = 5 THEN 16 ELSE IF j = 6 THEN 32 ELSE IF j = 7 THEN 64 ELSE 128) ELSE 0], n)
Edges == {S \in SUBSET (1..n) : Cardinality(S) = 2 \/ (Cardinality(S) = 3 /\ \E a \in S : S = {a, a + 1, a + 3})}
AddEdge == /\ n > MaxN /\ Len(rows) < BigM
           /\ \E S \in Edges : /\ (rows # <<>> => Code(S) > Code(rows[Len(rows)]))
                                /\ rows' = Append(rows, S)
           /\ UNCHANGED <<n, order>>
Next == AddRow \/ AddEdge
Spec == Init /\ [][Next]_vars
m == Len(rows)
Dense == [i \in 1..m |-> [j \in 1..n |-> IF j \in rows[i] THEN Val(i, j) ELSE 0]]
SortedSeq(T) == IF T = {} THEN <<>> ELSE CHOOSE s \in [1..Cardinality(T) -> T] : \A a, b \in 1..Cardinality(T) : a < b => s[a] < s[b]
Fill(i) == LET s == SortedSeq(rows[i]) k == Len(s)
           IN IF order = "asc" THEN s
              ELSE IF order = "desc" THEN [p \in 1..k |-> s[k + 1 - p]]
              ELSE [p \in 1..k |-> s[((p + i) % k) + 1]]
Adj(j) == {c \in 1..n : c # j /\ \E i \in 1..m : j \in rows[i] /\ c \in rows[i]}
RECURSIVE Reach(_)
Reach(S) == LET T == S \cup UNION {Adj(j) : j \in S} IN IF T = S THEN S ELSE Reach(T)
Connected == Reach({1}) = 1..n
Normal == MatMul(Transpose(Dense), Dense)
RECURSIVE H(_, _)
H(r, k) == IF k = 0 THEN 0 ELSE SumN([j \in 1..n |-> IF j \in r[k] THEN j * j ELSE 0], n) * (2 * k + 1) + H(r, k - 1)
Case == [m |-> m, n |-> n, A |-> Dense, fill |-> [i \in 1..m |-> Fill(i)], adj |-> [j \in 1..n |-> SortedSeq(Adj(j))],
         connected |-> Connected, N |-> Normal, rank |-> Rank(Dense)]
Emit == (m >= 1 /\ (H(rows, m) + n * 7 + Seed) % (IF n <= MaxN THEN Keep ELSE KeepBig) = 0 /\ (n > MaxN => m >= n - 2))
          => PrintT("CASE " \o ToJson(Case))
(* laws of the definitions *)
Laws == (m >= 1 /\ n <= MaxN) =>
          /\ IsSymmetric(Normal)
          /\ Rank(Normal) = Rank(Dense)
          /\ \A j \in 1..n : \A c \in Adj(j) : j \in Adj(c)
          /\ (Connected => \A j \in 1..n : n = 1 \/ Adj(j) # {})
=============================================================================
