-------------------------- MODULE FullSolverModel --------------------------
(* Refinement model of the full-matrix solvers AdjCholDec, AdjGSO, AdjSVD      *)
(* (adj_basefull.h, adj_chol.h, adj_gso.h, adj_svd.h + matvec/svd.h): the      *)
(* is_solved flag, the SVD's `decomposed`, and what each public method does to *)
(* them, including the behaviour on a regularisation that does not resolve the *)
(* defect. Ghost tags say for which (input, regularisation) x and the          *)
(* decomposition were computed.                                                *)
(* Named deviations from the contract (known findings, see known-findings.json)*)
(*   DefectBeforeSolve : chol/gso defect(), gso lindep() do not trigger the    *)
(*                       decomposition - they answer from the previous one     *)
(*   CholSilent        : after BadRegularization AdjCholDec marks itself solved*)
(*                       and serves the particular solution                    *)
(*   SvdDecomposeThrows: defect()/lindep() of a not yet decomposed AdjSVD      *)
(*                       throw when the subset is bad, later calls do not      *)
EXTENDS Integers, Sequences, FiniteSets, TLC

CONSTANTS Alg,        \* "chol" | "gso" | "svd"
          Probs, Regs, AllReg,
          NoProb, NoReg, PartReg,   \* "no input", "no regularisation", "particular solution" (same sorts as Probs / Regs)
          FixedMinX   \* TRUE: min_x() invalidates the solution (code after the fix)

VARIABLES solved, dec, prob, reg, xtag, dtag, facts, served
vars == <<solved, dec, prob, reg, xtag, dtag, facts, served>>

NoTag == [p |-> NoProb, r |-> NoReg]
Tag(p, r) == [p |-> p, r |-> r]
Nullity == facts[prob].nullity
BadRegFor(r) == r # AllReg /\ r \in facts[prob].bad /\ Nullity > 0
BadReg == BadRegFor(reg)

FactSpace == [nullity : 0..1, bad : SUBSET (Regs \ {AllReg, "S1"})]

Init == /\ solved = FALSE /\ dec = FALSE
        /\ prob \in Probs /\ reg = AllReg
        /\ xtag = NoTag /\ dtag = NoTag
        /\ facts \in [Probs -> FactSpace]
        /\ served = [kind |-> "none", tag |-> NoTag]

Reset(p) == /\ prob' = p /\ solved' = FALSE
            /\ dec' = IF Alg = "svd" THEN FALSE ELSE dec
            /\ served' = [kind |-> "none", tag |-> NoTag]
            /\ UNCHANGED <<reg, xtag, dtag, facts>>

(* svd.min_x(n, list) re-regularises at once when a decomposition of a singular matrix exists *)
MinXThrows(r) == Alg = "svd" /\ dec /\ dtag.p = prob /\ BadRegFor(r)
MinX(r) == /\ reg' = r
           /\ solved' = IF FixedMinX THEN FALSE ELSE solved
           /\ served' = [kind |-> IF MinXThrows(r) THEN "exc" ELSE "none", tag |-> NoTag]
           /\ UNCHANGED <<dec, prob, xtag, dtag, facts>>

(* solve(): result record *)
Solve ==
  IF solved THEN [solved |-> TRUE, dec |-> dec, xtag |-> xtag, dtag |-> dtag, threw |-> FALSE]
  ELSE IF BadReg
       THEN [solved |-> (Alg = "chol"), dec |-> (Alg = "svd") \/ dec,
             xtag |-> IF Alg = "chol" THEN Tag(prob, PartReg) ELSE xtag,
             dtag |-> Tag(prob, NoReg), threw |-> TRUE]
       ELSE [solved |-> TRUE, dec |-> (Alg = "svd") \/ dec, xtag |-> Tag(prob, reg), dtag |-> Tag(prob, NoReg), threw |-> FALSE]

Apply(s) == solved' = s.solved /\ dec' = s.dec /\ xtag' = s.xtag /\ dtag' = s.dtag

(* unknowns, residuals, sum_of_squares, q_xx, q_bb *)
Query(kind) == LET s == Solve IN
  /\ Apply(s)
  /\ served' = IF s.threw THEN [kind |-> "exc", tag |-> Tag(prob, reg)] ELSE [kind |-> kind, tag |-> s.xtag]
  /\ UNCHANGED <<prob, reg, facts>>

(* svd.nullity() / svd.lindep(): decompose on demand; a bad subset throws from inside svd() *)
SvdDecompose(kind) ==
  IF dec THEN /\ served' = [kind |-> kind, tag |-> dtag] /\ UNCHANGED <<solved, dec, prob, reg, xtag, dtag, facts>>
  ELSE /\ dec' = TRUE /\ dtag' = Tag(prob, NoReg)
       /\ served' = IF BadReg THEN [kind |-> "exc", tag |-> Tag(prob, reg)] ELSE [kind |-> kind, tag |-> dtag']
       /\ UNCHANGED <<solved, prob, reg, xtag, facts>>

Defect == IF Alg = "svd" THEN SvdDecompose("df")
          ELSE /\ served' = [kind |-> "df", tag |-> dtag]            \* chol, gso: no solve
               /\ UNCHANGED <<solved, dec, prob, reg, xtag, dtag, facts>>

Lindep == IF Alg = "svd" THEN SvdDecompose("ld")
          ELSE IF Alg = "gso" THEN /\ served' = [kind |-> "ld", tag |-> dtag]
                                   /\ UNCHANGED <<solved, dec, prob, reg, xtag, dtag, facts>>
          ELSE LET s == Solve IN                                      \* chol: this->solve()
               /\ Apply(s)
               /\ served' = IF s.threw THEN [kind |-> "exc", tag |-> Tag(prob, reg)] ELSE [kind |-> "ld", tag |-> s.dtag]
               /\ UNCHANGED <<prob, reg, facts>>

Next == \/ \E p \in Probs : Reset(p)
        \/ \E r \in Regs : MinX(r)
        \/ \E k \in {"x", "r", "ss", "qxx", "qbb"} : Query(k)
        \/ Defect \/ Lindep
Spec == Init /\ [][Next]_vars

(* ---- contract, with the named deviations ---- *)
CholSilent == Alg = "chol" /\ served.tag = Tag(prob, PartReg) /\ BadReg
DefectBeforeSolve == Alg \in {"chol", "gso"} /\ served.kind \in {"df", "ld"} /\ ~solved
ServedCurrent ==
  /\ served.kind \in {"x", "qxx"} => (served.tag = Tag(prob, reg) \/ CholSilent)
  /\ served.kind \in {"r", "ss", "qbb"} => (served.tag.p = prob)
  /\ served.kind \in {"df", "ld"} => (served.tag.p = prob \/ DefectBeforeSolve)
SolvedMeansCurrent == solved => (xtag = Tag(prob, reg) \/ (Alg = "chol" /\ xtag = Tag(prob, PartReg) /\ BadReg))
ExcOnlyWhenBad == served.kind = "exc" => Nullity > 0
=============================================================================
