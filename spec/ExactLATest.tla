--------------------------- MODULE ExactLATest ---------------------------
(* Self-checks of ExactLA evaluated by TLC (ASSUME), incl. an exhaustive   *)
(* cross-check of Rank/NullBasis/Det on all 3x3 matrices over -1..1.       *)
EXTENDS ExactLA, TLC
VARIABLE M

A1 == << <<1, -1, 0>>, <<0, 1, -1>>, <<1, 0, -1>> >>
C3 == << <<4, 2, 1>>, <<2, 3, 1>>, <<1, 1, 2>> >>

ASSUME Gcd(12, -18) = 6 /\ Lcm(4, 6) = 12 /\ Gcd(0, 0) = 0
ASSUME Det(A1) = 0 /\ Rank(A1) = 2 /\ NullBasis(A1) = << <<1, 1, 1>> >>
ASSUME Det(C3) = 13 /\ IsSPD(C3) /\ MatMul(C3, Adjugate(C3)) = Scale(13, Identity(3))
ASSUME ~IsSPD(<< <<1, 2>>, <<2, 1>> >>) /\ ~IsSPD(<< <<0>> >>) /\ IsSPD(<< <<2, 1>>, <<1, 2>> >>)
ASSUME NullBasisN(<<>>, 2) = << <<1, 0>>, <<0, 1>> >>
ASSUME Admissible(<< <<1, 1, 1>> >>, {2}) /\ ~Admissible(<< <<1, 1, 0>> >>, {3})
ASSUME Rank(<< <<0, 0>>, <<0, 0>> >>) = 0 /\ Len(NullBasis(<< <<0, 0>>, <<0, 0>> >>)) = 2

Vals == {-1, 0, 1}
Init == M \in [1..3 -> [1..3 -> Vals]]
Next == UNCHANGED M
(* rank + nullity = n; null vectors are annihilated; det # 0 iff full rank; A adj(A) = det I *)
Inv == LET G == NullBasis(M) IN
       /\ Rank(M) + Len(G) = 3
       /\ \A k \in 1..Len(G) : MatVec(M, G[k]) = <<0, 0, 0>> /\ G[k] # <<0, 0, 0>>
       /\ (Len(G) = 0 \/ Rank(G) = Len(G))
       /\ (Det(M) # 0) <=> (Rank(M) = 3)
       /\ MatMul(M, Adjugate(M)) = Scale(Det(M), Identity(3))
       /\ Det(Transpose(M)) = Det(M)
=============================================================================
