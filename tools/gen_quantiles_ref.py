#!/usr/bin/env python3-vt
"""Generates spec/data/quantiles_ref.json once, with scipy from the tooling venv (trusted reference
for the accuracy clause of C17 and the confidence-scale clause of C09). The table is committed;
the checks never call scipy."""
import json
from scipy import stats
alphas = [0.0005, 0.001, 0.0025, 0.005, 0.01, 0.02, 0.025, 0.03, 0.04, 0.05, 0.075, 0.1, 0.15, 0.2, 0.25, 0.3, 0.35, 0.4, 0.45, 0.5,
          0.55, 0.6, 0.65, 0.7, 0.75, 0.8, 0.85, 0.9, 0.925, 0.95, 0.96, 0.97, 0.975, 0.98, 0.99, 0.995, 0.9975, 0.999, 0.9995]
dofs = list(range(1, 31)) + [35, 40, 45, 50, 60, 70, 80, 90, 100, 120, 150, 200, 300, 500, 1000]
T = {"alphas": alphas, "dofs": dofs,
     "normal": [float(stats.norm.isf(a)) for a in alphas],
     "student": {str(n): [float(stats.t.isf(a, n)) for a in alphas] for n in dofs},
     "chi2": {str(n): [float(stats.chi2.isf(a, n)) for a in alphas] for n in dofs},
     "normal_cdf": {str(x): float(stats.norm.cdf(x)) for x in [-8, -6, -4, -3, -2.5, -2, -1.5, -1, -0.5, -0.1, 0, 0.1, 0.5, 1, 1.5, 2, 2.5, 3, 4, 6, 8]}}
json.dump(T, open("spec/data/quantiles_ref.json", "w"))
print("ok", len(alphas), len(dofs))
