"""Reader of the GNU Octave script written by gama-local --octave (the subset of the language the
writer uses: scalars, cell arrays of single-quoted strings, numeric matrices, sparse(tmp...)) and a
small dense solver; independent of gama."""
import re


class OctaveError(Exception):
    pass


def unquote(s):
    """Octave single-quoted string literal -> text; raises when the literal is not well formed"""
    s = s.strip()
    if len(s) < 2 or s[0] != "'" or s[-1] != "'":
        raise OctaveError("not a single-quoted string: %r" % s)
    body = s[1:-1]
    out, i = [], 0
    while i < len(body):
        if body[i] == "'":
            if i + 1 < len(body) and body[i + 1] == "'":
                out.append("'")
                i += 2
                continue
            raise OctaveError("unescaped apostrophe inside the string literal %s" % s)
        out.append(body[i])
        i += 1
    return "".join(out)


def parse(text):
    """returns dict name -> value (float, list of str, list of rows); 'tmp' assignments are kept
    under the name they are converted to (A, C_ll) and the last one under 'x_listed'."""
    env = {}
    lines = text.split("\n")
    i = 0
    tmp = None
    while i < len(lines):
        ln = lines[i]
        code = ln.split("%")[0] if not ln.lstrip().startswith("'") else ln
        m = re.match(r"^\s*([A-Za-z_]\w*)\s*=\s*(.*)$", code)
        if not m:
            i += 1
            continue
        name, rest = m.group(1), m.group(2).strip()
        if rest.startswith("{"):
            items = []
            i += 1
            while i < len(lines) and not lines[i].strip().startswith("};"):
                if lines[i].strip():
                    items.append(unquote(lines[i]))
                i += 1
            env[name] = items
        elif rest.startswith("["):
            parts = [rest[1:]]
            while "]" not in parts[-1].split("%")[0]:
                i += 1
                if i >= len(lines):
                    raise OctaveError("unterminated matrix " + name)
                parts.append(lines[i])
            body = "\n".join(x.split("%")[0] for x in parts)
            body = body[:body.index("]")]
            body = re.sub(r"\.\.\.[ \t]*\n", " ", body)          # continuation lines
            rows = []
            for part in re.split(r"[;\n]", body):
                if part.strip():
                    try:
                        rows.append([float(v) for v in part.split()])
                    except ValueError:
                        raise OctaveError("matrix %s has a non-numeric element: %r" % (name, part.strip()[:60]))
            if name == "tmp":
                tmp = rows
            else:
                env[name] = rows
        elif rest.startswith("sparse(tmp"):
            env[name] = ("sparse", tmp)
        else:
            mm = re.match(r"^([-+0-9.eE]+)\s*;", rest)
            if mm:
                env[name] = float(mm.group(1))
            elif name == "tmp" and rest.startswith("(tmp(:,1) - x)"):
                env["x_listed"] = tmp
        i += 1
    return env


def dense(sp, rows, cols):
    M = [[0.0] * cols for _ in range(rows)]
    for r, c, v in sp[1]:
        M[int(r) - 1][int(c) - 1] = v
    return M


def solve(N, n):
    """Gaussian elimination with partial pivoting; returns None for a singular matrix"""
    k = len(N)
    M = [row[:] + [n[i]] for i, row in enumerate(N)]
    for c in range(k):
        p = max(range(c, k), key=lambda r: abs(M[r][c]))
        if abs(M[p][c]) < 1e-12 * max(1.0, max(abs(v) for v in M[p][:k])):
            return None
        M[c], M[p] = M[p], M[c]
        for r in range(c + 1, k):
            f = M[r][c] / M[c][c]
            if f:
                for j in range(c, k + 1):
                    M[r][j] -= f * M[c][j]
    x = [0.0] * k
    for c in range(k - 1, -1, -1):
        x[c] = (M[c][k] - sum(M[c][j] * x[j] for j in range(c + 1, k))) / M[c][c]
    return x
