"""Conformance harness of spec/AcordModel.tla (C06): every network TLC builds by constructions is written
without approximate coordinates of the constructed points; gama-local must position every point of the
model's closure at its true place with zero residuals. Point names and document order are chosen so that
neither is the construction order (PointData is a map ordered by id, clusters are walked in document order)."""
import json, os
import vlib, gl, session

AXES = [("ne", True), ("en", False), ("sw", True), ("es", True), ("nw", False)]


def generate(ctx, name, consts, timeout=1500, module="AcordModel"):
    cfg = os.path.join(vlib.SPEC, "_%s.cfg" % name)
    with open(cfg, "w") as f:
        f.write("SPECIFICATION Spec\nCONSTANTS\n" + "".join("  %s = %s\n" % kv for kv in consts.items())
                + "INVARIANTS Determined Emit\nPROPERTY Monotone\nCHECK_DEADLOCK FALSE\n")
    r = vlib.tlc(module, "_%s.cfg" % name, timeout=timeout)
    os.remove(cfg)
    if r.outcome != "ok":
        raise vlib.ModelFailure("%s: %s\n%s" % (module, r.outcome, r.out[-2500:]))
    return r, sorted(r.cases, key=lambda c: json.dumps(c, sort_keys=True))


def survey(case, variant):
    """variant 0: names in universe order, observations in model order; 1: names reversed (the point constructed last sorts first) and
    shuffled document; 2: names chosen so that constructed points sort before the fixed ones"""
    k = sum(o["from"] * 7 + o["to"] + 3 * o.get("to2", 0) for o in case["obs"]) + len(case["obs"])
    axes, lh = AXES[(k + variant) % len(AXES)]
    known = case["fixed"] + case["built"]
    pts = [{"id": "P%d" % i, "e": 1000 + 100 * case["pts"][i - 1]["e"], "n": 2000 + 100 * case["pts"][i - 1]["n"], "u": 0,
            "role": "fix" if i in case["fixed"] else "unk"} for i in sorted(known)]
    obs = [{"t": o["t"], "from": "P%d" % o["from"], "to": "P%d" % o["to"], "to2": ("P%d" % o["to2"]) if o.get("to2") else ""} for o in case["obs"]]
    net = {"t": "acord2d", "dim": 2, "pts": pts, "obs": obs, "axes": axes, "lefthanded": lh, "noise": 0, "orient": 137531 + 9173 * (k % 37)}
    sv = session.Survey(net)
    for p in sv.pts:
        if p["role"] == "unk":
            p["approx"] = "omit"
    n = len(case["pts"])
    if variant == 1:
        sv.names = {"P%d" % i: "Q%d" % (n + 1 - i) for i in sorted(known)}
        sv.order_seed = 1000 + k
    elif variant == 2:
        sv.names = {"P%d" % i: ("Z%d" % i if i in case["fixed"] else "A%d" % (n + 1 - i)) for i in sorted(known)}
        sv.order_seed = 2000 + k
    return sv


def survey_h(case, variant):
    """AcordHeights.tla: horizontal positions fixed, heights of the constructed points omitted; variant 3 (pure vector networks only):
    nothing but the fixed point is given"""
    k = sum(o["from"] * 7 + o["to"] for o in case["obs"]) + len(case["obs"])
    axes, lh = AXES[(k + variant) % len(AXES)]
    known = case["fixed"] + case["built"]
    free = variant == 3
    pts = [{"id": "P%d" % i, "e": 1000 + 100 * case["pts"][i - 1]["e"], "n": 2000 + 100 * case["pts"][i - 1]["n"], "u": case["pts"][i - 1]["u"],
            "role": "fix" if i in case["fixed"] else ("unk" if free else "unkz")} for i in sorted(known)]
    obs = []
    for o in case["obs"]:
        f, t = "P%d" % o["from"], "P%d" % o["to"]
        if o["t"] == "dh":
            obs.append({"t": "dh", "from": f, "to": t, "to2": ""})
        elif o["t"] == "zs":
            obs.append({"t": "s-distance", "from": f, "to": t, "to2": ""})
            obs.append({"t": "z-angle", "from": f, "to": t, "to2": ""})
        elif o["t"] == "zd":
            obs.append({"t": "distance", "from": f, "to": t, "to2": ""})
            obs.append({"t": "z-angle", "from": f, "to": t, "to2": ""})
        elif o["t"] == "za":
            obs.append({"t": "z-angle", "from": f, "to": t, "to2": ""})
        else:
            obs.append({"t": "vector", "from": f, "to": t, "to2": ""})
    net = {"t": "acordh", "dim": 3, "pts": pts, "obs": obs, "axes": axes, "lefthanded": lh, "noise": 0, "orient": 137531}
    sv = session.Survey(net)
    for p in sv.pts:
        if p["role"] != "fix":
            p["approx"] = "omit"
    n = len(case["pts"])
    if variant == 1:
        sv.names = {"P%d" % i: "Q%d" % (n + 1 - i) for i in sorted(known)}
        sv.order_seed = 1000 + k
    elif variant == 2:
        sv.names = {"P%d" % i: ("Z%d" % i if i in case["fixed"] else "A%d" % (n + 1 - i)) for i in sorted(known)}
        sv.order_seed = 2000 + k
    return sv


T3 = {"dir": "direction", "dist": "distance", "sd": "s-distance", "za": "z-angle", "dh": "dh", "vec": "vector"}


def survey_3d(case, variant):
    """Acord3D.tla: nothing but the fixed points is given"""
    k = sum(o["from"] * 7 + o["to"] for o in case["obs"]) + len(case["obs"])
    axes, lh = AXES[(k + variant) % len(AXES)]
    known = case["fixed"] + case["built"]
    pts = [{"id": "P%d" % i, "e": 1000 + 100 * case["pts"][i - 1]["e"], "n": 2000 + 100 * case["pts"][i - 1]["n"], "u": case["pts"][i - 1]["u"],
            "role": "fix" if i in case["fixed"] else "unk"} for i in sorted(known)]
    obs = [{"t": T3[o["t"]], "from": "P%d" % o["from"], "to": "P%d" % o["to"], "to2": ""} for o in case["obs"]]
    net = {"t": "acord3d", "dim": 3, "pts": pts, "obs": obs, "axes": axes, "lefthanded": lh, "noise": 0, "orient": 137531 + 9173 * (k % 37)}
    sv = session.Survey(net)
    for p in sv.pts:
        if p["role"] != "fix":
            p["approx"] = "omit"
    n = len(case["pts"])
    if variant == 1:
        sv.names = {"P%d" % i: "Q%d" % (n + 1 - i) for i in sorted(known)}
        sv.order_seed = 1000 + k
    elif variant == 2:
        sv.names = {"P%d" % i: ("Z%d" % i if i in case["fixed"] else "A%d" % (n + 1 - i)) for i in sorted(known)}
        sv.order_seed = 2000 + k
    return sv


def run(ctx, cases, algs=(None,), variants=(0, 1, 2), heights=False, spatial=False, kind="plain"):
    """kind = "asan": the same inputs through the ASan / UBSan build (memory errors and undefined behaviour in the approximate-coordinate code)"""
    vlib.build(kind, ["gama-local"])
    jobs, meta = [], []
    for ci, c in enumerate(cases):
        vs = variants
        if heights and all(o["t"] == "vec" for o in c["obs"]):
            vs = tuple(variants) + (3,)
        for v in vs:
            sv = survey_3d(c, v) if spatial else survey_h(c, v) if heights else survey(c, v)
            for alg in algs:
                args = sv.cli() + (["--algorithm", alg] if alg else [])
                jobs.append({"gkf": sv.gkf(), "args": args, "want": ["xml"], "kind": kind})
                meta.append((ci, v, alg, sv))
    runs = gl.run_many(ctx, jobs)
    st = {"runs": len(jobs), "adjusted": 0, "points_checked": 0, "by_construction": {}}
    failures, failed = [], set()
    for (ci, v, alg, sv), run, job in zip(meta, runs, jobs):
        c = cases[ci]
        kinds = "+".join(c["hist"][:len(c["hist"]) - c["extra"]])
        if c.get("travpts"):
            # an interior point of an inserted traverse that is also tied to other points (more than its two traverse neighbours)
            nb = {}
            for o in c["obs"]:
                for a_, b_ in ((o["from"], o["to"]), (o["to"], o["from"])) + (((o["from"], o["to2"]), (o["to2"], o["from"])) if o.get("to2") else ()):
                    nb.setdefault(a_, set()).add(b_)
            if any(len(nb.get(p_, ())) > 2 for p_ in c["travpts"]):
                kinds = kinds.replace("trav", "travx")
        tag = "%s|%s%s" % ("acord3d" if spatial else "acordh" if heights else "acord", kinds, "|extra" if c["extra"] else "")
        st["by_construction"][kinds] = st["by_construction"].get(kinds, 0) + 1

        def report(chk, msg, job=job, tag=tag, c=c, v=v, ci=ci, alg=alg):
            failures.append((ci, alg, v, chk, tag, msg, job, c))
            failed.add((ci, alg, v))
        cls = gl.classify(run)
        if cls in ("crash", "sanitizer", "hang"):
            report("run_" + cls, run.out[-800:])
            continue
        if cls != "adjusted" or run.res is None:
            report("truth_outcome", "every unknown point is determined by construction but the network is not adjusted (%s): %s" % (cls, run.out[-300:]))
            continue
        st["adjusted"] += 1
        P = session.project(run.res, sv)
        st["points_checked"] += len(c["built"])
        session.check_truth(P, sv, report)
    for (ci, alg, v, chk, tag, msg, job, c) in failures:
        # the same network written in construction order is solved: the failure is one of document order / point names
        od = v != 0 and (ci, alg, 0) not in failed
        ctx.violation("%s%s|%s" % ("order_dependent|" if od else "", chk, tag),
                      "variant %d%s, constructions %s, fixed %s: %s" % (v, " (variant 0 of the same network is solved)" if od else "", c["hist"], c["fixed"], msg),
                      replay={"gkf": job["gkf"], "args": job["args"], "case": c})
    return st
