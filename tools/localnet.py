"""C04 for network objects: histories of LocalNetModel.tla replayed on LocalNetwork (harness/drv_localnet); every answer is compared
with a fresh object given the same configuration and content and asked only that question (direction A); the life-cycle flags
logged after every call are validated by TraceLocalNet.tla (direction B)."""
import json, os
import vlib, sessions, session


def networks(ctx):
    """three networks written as gkf files: noisy intersection network (a priori), 3-D polar network with displaced approximate
    coordinates (REFINE has work to do, a posteriori), trilateration with one gross distance (RMABS has work to do)"""
    out = {}
    d = os.path.join(ctx.outdir, "nets")
    os.makedirs(d, exist_ok=True)

    def tmpl(t, noise, axes="ne", lh=True, orient=1234567):
        r, ss = sessions.generate(ctx, "c04net", {"Templates": '{"%s"}' % t, "NoiseSet": "{%d}" % noise, "MaxEdits": 0, "EditKinds": "{}", "KeepNet": 1, "KeepEdit": 1, "Seed": 1})
        for s in ss:
            n = s["net"]
            if n["axes"] == axes and n["lefthanded"] == lh and n["orient"] == orient and len(n["obs"]) == max(len(x["net"]["obs"]) for x in ss):
                return n
        return ss[0]["net"]
    sv = sessions.base_survey(tmpl("tri2d", 2))
    sv.params["sigma-act"] = "apriori"
    out["n1"] = sv.gkf()
    sv = session.apply_edit(sessions.base_survey(tmpl("polar3d", 1)), {"k": "PerturbApprox", "mm": 600})
    sv.params["sigma-act"] = "aposteriori"
    out["n2"] = sv.gkf()
    sv = session.apply_edit(sessions.base_survey(tmpl("dist2d", 3)), {"k": "Blunder", "obs": 2, "pct": 300, "tol": 1000, "sig": 10})
    sv.params["sigma-act"] = "aposteriori"
    out["n3"] = sv.gkf()
    paths = {}
    for k, text in out.items():
        paths[k] = os.path.join(d, k + ".gkf")
        open(paths[k], "w").write(text)
    return paths


def fresh_history(ops, k):
    """the canonical history a fresh object gets for the query at position k (0-based) of ops"""
    cfg = {}
    content = []
    for op, arg in ops[:k]:
        if op in ("ALG", "M0", "CONF", "APR"):
            cfg[op] = arg
        elif op in ("RMABS", "REFINE"):
            content.append((op, arg))
    return [(o, cfg[o]) for o in ("ALG", "M0", "CONF", "APR") if o in cfg] + content + [tuple(ops[k])]


def close(a, b, tol=1e-7):
    if len(a) != len(b):
        return False
    return all(abs(x - y) <= tol * max(1.0, abs(x), abs(y)) for x, y in zip(a, b))


def check(ctx):
    q = ctx.quick
    consts = {"Nets": '{"n1", "n2", "n3"}', "MaxLen": 4 if q else 5, "Keep": 7 if q else 3, "Seed": ctx.seed, "Full": 3}
    cfg = os.path.join(vlib.SPEC, "_lnm_%s.cfg" % ctx.pid)
    with open(cfg, "w") as f:
        f.write("SPECIFICATION Spec\nCONSTANTS\n" + "".join("  %s = %s\n" % kv for kv in consts.items()) + "INVARIANT FlagsCoherent\nINVARIANT Emit\nCHECK_DEADLOCK FALSE\n")
    r = vlib.tlc("LocalNetModel", os.path.basename(cfg), timeout=2400)
    os.remove(cfg)
    if r.outcome == "invariant" and r.violated != "Emit":
        ctx.violation("model|LocalNetModel|" + str(r.violated), r.trace_text[:2000])
    elif r.outcome != "ok":
        raise vlib.ModelFailure("LocalNetModel: %s\n%s" % (r.outcome, r.out[-2000:]))
    hists = sorted(r.cases, key=lambda c: json.dumps(c, sort_keys=True))
    short = [h for h in hists if len(h["ops"]) <= 3]                      # all histories of up to three calls
    longer = [h for h in hists if len(h["ops"]) > 3]
    hists = short + longer[:: max(1, len(longer) // (2000 if q else 30000))]
    ctx.note("LocalNetModel.tla: %d states, %d histories" % (r.distinct, len(hists)))
    paths = networks(ctx)
    # histories + the fresh history of every query
    lines = ["NET %s %s" % kv for kv in paths.items()]
    plan = []                      # (hid, net, ops)
    fresh_ids = {}
    for hi, h in enumerate(hists):
        ops = [tuple(o) for o in h["ops"]]
        plan.append(("H%d" % hi, h["net"], ops))
        for k, (op, arg) in enumerate(ops):
            if op == "Q":
                fh = tuple(fresh_history(ops, k))
                key = (h["net"], fh)
                if key not in fresh_ids:
                    fresh_ids[key] = "F%d" % len(fresh_ids)
                    plan.append((fresh_ids[key], h["net"], list(fh)))
    for hid, net, ops in plan:
        lines.append("HIST %s %s %d" % (hid, net, len(ops)))
        for op, arg in ops:
            lines.append(op if op in ("RMABS", "REFINE") else "%s %s" % (op, arg))
    inp = os.path.join(ctx.outdir, "localnet.txt")
    open(inp, "w").write("\n".join(lines) + "\n")
    st = {"histories": len(hists), "fresh_objects": len(fresh_ids), "answers_compared": 0, "states": r.distinct, "trace_records": 0}
    for kind in ("asan", "plain"):
        bdir = vlib.build(kind, ["drv_localnet"])
        rc, out = vlib.sh([os.path.join(bdir, "drv_localnet"), inp], timeout=3000, env=vlib.ASAN_ENV if kind == "asan" else None)
        recs = [json.loads(l) for l in out.splitlines() if l.startswith("{")]
        if rc != 0 or not recs:
            ctx.violation("localnet|crash|" + kind, "drv_localnet (%s build) died rc=%s\n%s" % (kind, rc, out[-3000:]))
            continue
        by = {}
        for x in recs:
            by.setdefault(x["h"], []).append(x)
        for hi, h in enumerate(hists):
            ops = [tuple(o) for o in h["ops"]]
            got = by.get("H%d" % hi, [])
            for k, (op, arg) in enumerate(ops):
                if op != "Q" or k >= len(got):
                    continue
                fr = by.get(fresh_ids[(h["net"], tuple(fresh_history(ops, k)))], [])
                if not fr:
                    continue
                a, b = got[k], fr[-1]
                st["answers_compared"] += 1
                pre = "+".join(sorted(set(o for o, _ in ops[:k] if o != "Q")))
                if ("exc" in a) != ("exc" in b):
                    ctx.violation("localnet|history|%s|exception|%s" % (arg, pre), "network %s, history %s: %s, a fresh object: %s" % (
                        h["net"], ops[:k + 1], a.get("exc", a.get("ans")), b.get("exc", b.get("ans"))), replay={"history": h, "nets": paths})
                elif "ans" in a and not close(a["ans"], b["ans"]):
                    ctx.violation("localnet|history|%s|value|%s" % (arg, pre), "network %s, history %s answers %s, a fresh object given %s answers %s" % (
                        h["net"], ops[:k + 1], a["ans"][:6], fresh_history(ops, k), b["ans"][:6]), replay={"history": h, "nets": paths})
        if kind == "plain":
            # ---- direction B: flags of all histories against TraceLocalNet
            tr = os.path.join(ctx.outdir, "localnet_trace.ndjson")
            trecs = [{"k": x["k"], "op": x["op"], "arg": x["arg"], "did": x.get("did", 0), "m0type": x.get("m0type", "aposteriori"), "flags": x["flags"]}
                     for x in recs if "flags" in x and x["h"].startswith("H")]
            vlib.write_ndjson(tr, trecs)
            st["trace_records"] = len(trecs)
            t = vlib.tlc("TraceLocalNet", "TraceLocalNet.cfg", workers=1, env={"TRACE": tr}, timeout=1500)
            if t.outcome in ("postcondition", "invariant"):
                t2 = vlib.tlc("TraceLocalNet", "TraceLocalNet.cfg", workers=1, env={"TRACE": tr}, timeout=1500)
                if t2.outcome == t.outcome:
                    k = t.distinct
                    bad = trecs[k - 1] if 0 < k <= len(trecs) else {}
                    prev = trecs[k - 2] if k >= 2 else {}
                    ctx.violation("localnet|trace|%s" % bad.get("op", "?"), "flags logged from LocalNetwork are rejected by TraceLocalNet after %d of %d records: %s after %s" % (
                        k - 1, len(trecs), bad, prev), replay={"trace": tr, "record": k})
            elif t.outcome != "ok":
                raise vlib.ModelFailure("TraceLocalNet: %s\n%s" % (t.outcome, t.out[-2000:]))
            else:
                st["trace_states"] = t.distinct
    return st
