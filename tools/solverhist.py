"""C04 helpers: problem pairs from LsqCases, histories from SolverAPI, replay with drv_solver."""
import json, os
import vlib, lsq


def pick_pairs(cases, n, m, seed, count=4):
    """pairs (p0, p1) of problems with the same dimensions and different features"""
    pool = [c for c in cases if c["n"] == n and c["m"] == m and c["all"]]
    def feat(c):
        return (c["n"] - c["rank"], max(b["band"] for b in c["blocks"]) > 0, c["fam"])
    groups = {}
    for c in pool:
        groups.setdefault(feat(c), []).append(c)
    keys = sorted(groups)
    sing = [k for k in keys if k[0] > 0]
    reg = [k for k in keys if k[0] == 0]
    pairs = []
    def take(k, i):
        g = groups[k]
        return g[(seed * 31 + i * 17) % len(g)]
    i = 0
    for k in sing:
        other = sing[(sing.index(k) + 1) % len(sing)] if len(sing) > 1 else k
        pairs.append((take(k, i), take(other, i + 5)))
        i += 1
        if reg:
            pairs.append((take(k, i), take(reg[i % len(reg)], i)))
            i += 1
    for k in reg[:2]:
        pairs.append((take(k, i), take(sing[i % len(sing)] if sing else k, i + 3)))
        i += 1
    # de-duplicate and bound
    out = []
    for p in pairs:
        if p not in out:
            out.append(p)
    return out[:count]


def write_hist(path, hists, algs, ids=None):
    with open(path, "w") as f:
        for k, h in enumerate(hists):
            for alg in algs:
                f.write("HIST %s %s 0\n" % (ids[k] if ids else "h%d" % k, alg))
                for o in h:
                    if o["op"] == "min":
                        f.write(" min %d %s\n" % (len(o["a"]), " ".join(map(str, o["a"]))))
                    else:
                        f.write(" %s %s\n" % (o["op"], " ".join(map(str, o["a"]))))
                f.write("ENDH\n")


def replay(ctx, pair, hists, algs=("env", "chol", "gso", "svd"), kind="plain", trace=None, tag="", maxfail=200):
    bdir = vlib.build(kind, ["drv_solver"])
    pp = os.path.join(ctx.outdir, "probs%s.txt" % tag)
    hp = os.path.join(ctx.outdir, "hist%s.txt" % tag)
    lsq.write_cases(list(pair), pp, ids=["P0", "P1"])
    write_hist(hp, hists, algs)
    cmd = [os.path.join(bdir, "drv_solver"), pp, hp, "--maxfail", str(maxfail)]
    if trace:
        cmd += ["--trace", trace]
    env = dict(vlib.ASAN_ENV) if kind == "asan" else None
    rc, out = vlib.sh(cmd, timeout=3000, env=env)
    recs = []
    for l in out.splitlines():
        if l.startswith("{"):
            try:
                recs.append(json.loads(l))
            except ValueError:
                pass                    # a line cut off by a dying driver: reported below as a crash (no summary record)
    summ = [r for r in recs if r.get("t") == "summary"]
    crashed = rc != 0 or not summ
    return recs, (summ[0] if summ else None), crashed, out, rc
