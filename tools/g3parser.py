"""DataParser (gama-g3 input / results, adj-input-data) against spec/G3Parser.tla.

1. tools/g3table.py extracts the init() table from the sources of the working tree -> G3Table.tla (in the run directory);
2. TLC checks the invariants of G3Parser.tla on that table exhaustively (Located, ErrorAbsorbing, ErrorNeverAccepted,
   Nesting, NoNullHandler, StopIsRoot, ZeroIsError + the static consistency of the table) and emits every transition;
3. for every transition a document is built (shortest path from the initial state, the transition, shortest completion),
   rendered as XML with one event per line and fed to the real parser by harness/drv_dataparser chunk by chunk;
4. the states of the real parser after every event, its error flag, the line of its diagnostic and the final outcome are
   compared with the model's.  A handler with semantic checks may refuse earlier than the control model (allowed, counted)."""
import json, os, shutil
import vlib, g3table

INVS = "Located ErrorAbsorbing ErrorNeverAccepted Nesting NoNullHandler StopIsRoot ZeroIsError"


def _tables(tab):
    """python mirror of OpenIx / AfterTab / DataTab / EtagTab (used only to classify handler refusals)"""
    def nm(x):
        return "s_error" if x == "0" else x
    opn, after, data, etag, stag = {}, {}, {}, {}, {}
    for i in tab["inits"]:
        s, t, n = nm(i["s"]), i["t"], nm(i["n"])
        z = n if i["z"] == "0" else i["z"]
        a = s if i["a"] == "0" else i["a"]
        opn[(s, t)] = n
        stag[(s, t)] = i["sh"]
        after[z] = a
        if i["dh"] != "0":
            data[n] = i["dh"]
        if i["eh"] != "0":
            etag[z] = i["eh"]
        if i["z2"] != "0":
            after[i["z2"]] = a
            etag[i["z2"]] = i["eh"] if i["eh"] != "0" else "NULL"
    return opn, after, data, etag, stag


def run(ctx, limit):
    wd = os.path.join(ctx.outdir, "g3parser")
    shutil.rmtree(wd, ignore_errors=True)
    os.makedirs(wd)
    tab = g3table.extract(vlib.REPO)
    open(os.path.join(wd, "G3Table.tla"), "w").write(g3table.tla_module(tab))
    shutil.copy(os.path.join(vlib.SPEC, "G3Parser.tla"), wd)
    with open(os.path.join(wd, "G3ParserEmit.cfg"), "w") as f:
        f.write("SPECIFICATION Spec\nCONSTANTS MaxDepth = 7\n MaxAfterErr = 2\nCONSTRAINT Bound\nACTION_CONSTRAINT EmitStep\nINVARIANTS %s\nCHECK_DEADLOCK FALSE\n" % INVS)
    r = vlib.tlc(os.path.join(wd, "G3Parser.tla"), os.path.join(wd, "G3ParserEmit.cfg"), workers=1, timeout=900, extra=["-continue"], tag="G3Parser")
    out = r.out
    cov = {"g3parser_inits": len(tab["inits"]), "g3parser_states": r.distinct}
    if '"TABLE"' not in out.replace("<<", "").replace(" ", "") and "TABLE" not in out:
        raise vlib.ModelFailure("G3Parser: table report missing\n" + out[-2000:])
    import re
    m = re.search(r'"TABLE",\s*\[(.*?)\]', out, re.S)
    flags = dict(re.findall(r"(\w+) \|-> (TRUE|FALSE)", m.group(1))) if m else {}
    if not flags:
        raise vlib.ModelFailure("G3Parser: cannot read the table report\n" + out[-2000:])
    for k, v in sorted(flags.items()):
        if v != "TRUE":
            ctx.violation("g3parser|table|%s" % k, "the init() table of DataParser is not consistent: static law '%s' of G3Parser.tla fails "
                          "(after: two init() calls write different after-states into one slot; open: two calls disagree on next[s][t]; nozero / errorrow: "
                          "state 0 (the error state) is used as an ordinary state, so that an error can be left again)" % k)
    bad = sorted(set(re.findall(r"Invariant (\w+) is violated", out)))
    for inv in bad:
        i = out.find("Invariant %s is violated" % inv)
        ctx.violation("g3parser|model|%s" % inv, "G3Parser.tla on the table extracted from the sources: invariant %s is violated\n%s" % (inv, out[i:i + 1800]))
    if not bad and r.outcome != "ok":
        raise vlib.ModelFailure("G3Parser: %s\n%s" % (r.outcome, out[-2500:]))
    edges = r.cases
    if len(edges) < 1000:
        raise vlib.ModelFailure("G3Parser emitted %d transitions only" % len(edges))
    cov["g3parser_transitions"] = len(edges)
    # ---- graph
    key = lambda s: json.dumps(s, sort_keys=True)
    succ, pred, node = {}, {}, {}
    for e in edges:
        ku, kv = key(e["u"]), key(e["v"])
        node[ku], node[kv] = e["u"], e["v"]
        succ.setdefault(ku, []).append(kv)
        pred.setdefault(kv, []).append(ku)
    init = [k for k, s in node.items() if s["ev"]["k"] == "init"]
    if len(init) != 1:
        raise vlib.ModelFailure("G3Parser: %d initial states" % len(init))
    par = {init[0]: None}
    q = [init[0]]
    for u in q:
        for v in sorted(succ.get(u, [])):
            if v not in par and not node[v]["ev"].get("refuse"):      # prefixes avoid model-side refusals too
                par[v] = u
                q.append(v)
    nxt = {}
    q = sorted(k for k, s in node.items() if s["out"] != "run")
    for k in q:
        nxt[k] = None
    for v in q:
        for u in sorted(pred.get(v, [])):
            # completions avoid model-side refusals (they cannot be forced on the real handlers)
            if u not in nxt and not node[v]["ev"].get("refuse"):
                nxt[u] = v
                q.append(u)

    # ---- graph law (EF accepted): every state reached without an error can still be completed to an accepted document without
    #      any handler refusing; a slot of after[] / next[][] that init() forgot makes an element impossible to close
    okset = set(k for k, s_ in node.items() if s_["out"] == "accepted")
    q2 = sorted(okset)
    for v in q2:
        for u in sorted(pred.get(v, [])):
            if u not in okset and not node[v]["ev"].get("refuse") and not node[v]["err"]:
                okset.add(u)
                q2.append(u)
    dead = sorted(set(node[k]["st"] for k in par if not node[k]["err"] and node[k]["out"] == "run" and k not in okset))
    cov["g3parser_states_completable"] = len([k for k in par if k in okset])
    for st_ in dead:
        ctx.violation("g3parser|dead-state|%s" % st_, "state %s of DataParser is reachable without error, but no sequence of tags leads from it to an accepted document "
                      "(an element that can be opened and never closed: a missing after[] or next[][] slot)" % st_)

    def path_to(k):
        p = []
        while k is not None:
            p.append(k)
            k = par[k]
        return p[::-1]

    def completion(k):
        p = []
        while nxt.get(k) is not None:
            k = nxt[k]
            p.append(k)
        return p
    opn, after, data, etag, stag = _tables(tab)
    names = tab["names"]
    valid_in = {}
    for (s, t) in opn:
        valid_in.setdefault(s, set()).add(t)
    cands = ["t_caption", "t_dim", "t_n", "t_text", "t_id"]
    todo = []
    for e in sorted(edges, key=lambda e: key(e)):
        if e["v"]["ev"].get("refuse"):
            continue
        ku, kv = key(e["u"]), key(e["v"])
        if ku not in par or kv not in nxt:
            continue
        todo.append(path_to(ku) + [kv] + completion(kv))
    # the plain build replays every transition (fast); the sanitizer build a sample of them in the quick tier
    stride = max(1, len(todo) // limit) if limit else 1
    script = os.path.join(wd, "docs.txt")
    exp = []
    with open(script, "w") as f:
        for di, p in enumerate(todo):
            lines = ['C <?xml version="1.0" ?>\\n']
            expect = [("hdr", "s_start", False, {"k": "hdr"}, "s_start")]
            stack = []
            pending = ""
            prev = "s_start"
            first_err_line = None
            skip = False
            nl = 1          # line breaks emitted so far: an event rendered now lies on line nl + 1
            seq = p[1:]
            for qi, k in enumerate(seq):
                s = node[k]
                ev = s["ev"]
                nxt_ev = node[seq[qi + 1]]["ev"] if qi + 1 < len(seq) else {"k": "none"}
                if ev["k"] == "open":
                    t = ev["t"]
                    if t == "t_unknown":
                        nmx = "bogus-tag"
                    elif t == "t_invalid":
                        nmx = names[[c for c in cands if c not in valid_in.get(prev, set())][0]]
                    else:
                        nmx = names[t]
                    stack.append(nmx)
                    txt = "<%s%s>" % (nmx, ' x="1"' if ev.get("attr") else "")
                elif ev["k"] == "close":
                    txt = "</%s>" % stack.pop()
                elif ev["k"] == "text":
                    pending = "1 "
                    if s["err"] and first_err_line is None:
                        first_err_line = nl + 1
                    prev = s["st"]
                    continue
                elif ev["k"] in ("chunk", "finish") and pending:
                    skip = True     # expat may hold back character data at the end of a chunk: not a controllable step
                    break
                elif ev["k"] == "chunk":
                    lines.append("K")
                    expect.append(("chunk", s["st"], s["err"], ev, prev))
                    continue
                else:
                    lines.append("F")
                    expect.append(("finish", s["st"], s["err"], ev, prev))
                    continue
                # a leaf that collects text and is closed at once gets the literal 1 on the same line (control is not affected)
                leaf = ev["k"] == "open" and not s["err"] and nxt_ev["k"] == "close" and data.get(s["st"], "white_spaces") != "white_spaces"
                if s["err"] and first_err_line is None:
                    first_err_line = nl + 1
                lines.append("C " + (pending + txt).replace("\\", "\\\\") + ("1" if leaf else "\\n"))
                if not leaf:
                    nl += 1
                expect.append((ev["k"] + ("+text" if pending else ""), s["st"], s["err"], ev, prev))
                pending = ""
                prev = s["st"]
            if skip:
                continue
            f.write("DOC %d\n%s\nEND\n" % (len(exp), "\n".join(lines)))
            exp.append({"expect": expect, "out": node[p[-1]]["out"], "errline": first_err_line, "lines": lines})
    cov["g3parser_documents"] = len(exp)
    res = {"matched": 0, "handler_refused": 0}
    script_asan = script
    if stride > 1:
        script_asan = os.path.join(wd, "docs-asan.txt")
        blocks = open(script).read().split("DOC ")[1:]
        with open(script_asan, "w") as f:
            f.write("".join("DOC " + b for b in blocks[::stride]))
    nasan = len(exp) if stride == 1 else len(range(0, len(exp), stride))
    cov["g3parser_documents_sanitizer"] = nasan
    for kind in ("plain", "asan"):
        bdir = vlib.build(kind, ["drv_dataparser"])
        rc, o = vlib.sh([os.path.join(bdir, "drv_dataparser"), script_asan if kind == "asan" else script], timeout=1800, env=vlib.ASAN_ENV if kind == "asan" else None)
        recs = []
        for l in o.splitlines():
            if l.startswith("{"):
                try:
                    recs.append(json.loads(l))
                except ValueError:      # the line the driver died in
                    break
        docs = [x for x in recs if "doc" in x]
        if rc != 0 or len(docs) != (nasan if kind == "asan" else len(exp)):
            ctx.violation("g3parser|crash|" + kind, "drv_dataparser (%s build) rc=%s answered %d of %d documents (a crash of the parser on a sequence of tags the table allows)\n%s" % (
                kind, rc, len(docs), nasan if kind == "asan" else len(exp), o[-2500:]), replay={"script": script_asan if kind == "asan" else script, "doc": len(docs)})
            continue
        if kind == "asan":
            continue
        for d, e in zip(docs, exp):
            rep = {"script": script, "doc": d["doc"], "xml": [l[2:] for l in e["lines"] if l.startswith("C ")], "real": d}
            if d["expat"]:
                raise vlib.ModelFailure("rendered document %s is not well-formed (line %s)" % (d["doc"], d["line"]))
            # property level, whatever the model says
            if d["thrown"] and (d["line"] < 1 or not d["msg"].strip()):
                ctx.violation("g3parser|unlocated", "DataParser refuses a document with 'line %d' and message %r (no located diagnostic)" % (d["line"], d["msg"]), replay=rep)
                continue
            if d["accepted"] and d["err"] and d["err"][-1] != 0:
                ctx.violation("g3parser|error-accepted", "DataParser accepted a document although error() had been called (line %d: %s)" % (d["errline"], d["errstr"]), replay=rep)
                continue
            ok, refused = True, False
            for i, (evk, mst, merr, ev, prev) in enumerate(e["expect"]):
                if i >= len(d["states"]):
                    break
                rst = tab["states"][d["states"][i]] if 0 <= d["states"][i] < len(tab["states"]) else "?%d" % d["states"][i]
                rerr = d["err"][i] != 0
                if rst == mst and rerr == bool(merr):
                    continue
                if evk in ("chunk", "finish") and d["thrown"] and d["at"] == i + 1 and merr:
                    continue        # the throw itself: states are reported as before
                custom = False
                if ev["k"] == "close":
                    custom = etag.get(ev.get("from"), "end_tag") != "end_tag"
                elif ev["k"] == "open":
                    # custom start handler, or a data handler that parses the literal at once (optional_*): it sees the line break
                    # that follows the tag and refuses it
                    custom = stag.get((prev, ev["t"]), "0") != "0" or data.get(mst, "white_spaces") not in ("white_spaces", "add_text")
                if evk.endswith("+text") and data.get(prev, "white_spaces") not in ("white_spaces", "add_text"):
                    custom = True
                if rerr and rst == "s_error" and not merr and custom:
                    refused = True          # a handler's semantic check: outside the control model
                    break
                ok = False
                ctx.violation("g3parser|state|%s" % ev["k"], "document %s, event %d (%s): DataParser is in state %s (error flag %s), G3Parser.tla says %s (error %s)\n%s" % (
                    d["doc"], i, json.dumps(ev), rst, rerr, mst, bool(merr), "\n".join(rep["xml"])[:800]), replay=rep)
                break
            if not ok:
                continue
            if refused:
                res["handler_refused"] += 1
                continue
            if e["out"] == "accepted" and not d["accepted"]:
                ctx.violation("g3parser|outcome|refused", "the model accepts document %s, DataParser: thrown=%s line %s %r" % (d["doc"], d["thrown"], d["line"], d["msg"]), replay=rep)
            elif e["out"] == "located" and not d["thrown"]:
                ctx.violation("g3parser|outcome|accepted", "the model refuses document %s at line %s, DataParser accepted it" % (d["doc"], e["errline"]), replay=rep)
            elif e["out"] == "located" and e["errline"] and d["line"] != e["errline"]:
                ctx.violation("g3parser|line", "document %s: the first inadmissible event is on line %d, the diagnostic says line %d (%s)" % (d["doc"], e["errline"], d["line"], d["msg"]), replay=rep)
            else:
                res["matched"] += 1
    cov["g3parser_documents_matched"] = res["matched"]
    cov["g3parser_documents_refused_by_handler"] = res["handler_refused"]
    if res["matched"] + res["handler_refused"] == 0 and not ctx.viol:
        raise vlib.ModelFailure("no DataParser document was compared")
    ctx.note("G3Parser.tla: %d states, %d transitions, %d documents replayed on DataParser (%d matched to the end, %d refused earlier by a handler's semantic check)" % (
        r.distinct, len(edges), len(exp), res["matched"], res["handler_refused"]))
    return cov
