#!/usr/bin/env python3
"""Writes /verif/MANIFEST.json from the table below (single source for check registration)."""
import json
import os
import subprocess

ROOT = os.path.dirname(os.path.dirname(os.path.abspath(__file__)))

CHECKS = {
    "C01": dict(cat="exploration", technique="TLC-generated exact cases (LsqCases.tla) replayed on the solvers + gama-local; certificate check",
                text="TLC enumerates small exact adjustment problems with their exact certificate (weights adj(C)/det C, rank, integer null space, "
                     "admissibility of the regularisation subset); every case is replayed on AdjEnvelope/AdjCholDec/AdjGSO/AdjSVD as LocalNetwork drives "
                     "them, on Adj (gama-g3 entry point) and, when it is a levelling network, through gama-local with all four algorithms. The minimiser "
                     "is characterised completely by A'P(Ax-b)=0 and G_S'x_S=0, so a wrong x cannot pass; exhaustive only over the thinned small universe.",
                note="trusted: TLC/ExactLA arithmetic (self-checked by ExactLATest), dot products in the harness, XML printing precision (16 digits for "
                     "coordinates, 8 for sums); universe limited to |a_ij|<=1, n<=3(4), m<=4(5), catalogue covariance blocks", ref="8/C01"),
    "C03": dict(cat="exploration", technique="TLC-generated exact cases replayed; generalised-inverse identities against exact N",
                text="For every LsqCases problem all q_xx, q0_xx, q_bb index pairs are fetched from every entry point and checked against the defining "
                     "identities with the exact N=A'PA: symmetry, NQN=N, QNQ=Q, G_S'Q=0 (unique characterisation of the cofactor matrix of the chosen "
                     "regularisation), L H L' = AQA', projector diagonal in [0,1], redundancy sum; at network level the XML cov-mat and the standard "
                     "deviations of adjusted observations of levelling networks, and the SetCovBand law on the repository inputs.",
                note="trusted: as C01; XML cofactors printed with 8 significant digits (checked to 5e-6)", ref="8/C03"),
    "C04": dict(cat="model_checking", technique="TLC exhaustive model checking of refinement models + history replay vs fresh object + trace validation",
                text="EnvelopeModel, FullSolverModel (chol/gso/svd) and MoveToFront are finite refinement models of the solver classes with ghost tags "
                     "saying for which input/regularisation every stored artefact was computed; TLC explores every reachable state (all call histories of "
                     "any length) and checks that whatever is served is current. The models are bound to the code in both directions: every call of "
                     "TLC-generated API histories (exhaustive up to length 3, random walks of length 9, from SolverAPI.tla) is replayed on the real "
                     "objects and compared with a fresh object (the property's own oracle, plain and ASan/UBSan builds); the general class Adj (gama-g3) is taken "
                     "through histories solve / set_algorithm / set(input) / other query orders on every LsqCases problem and compared with fresh "
                     "objects; and the private state logged "
                     "after every call is validated as a behaviour of the models by TLC; every MoveToFront transition is replayed on the template.",
                note="trusted: the abstraction (ghost tags instead of numbers), sanitizers. Network objects: LocalNetModel.tla gives the flag "
                     "transition of every public operation of LocalNetwork (queries, update_*, set_algorithm, m0 type, confidence, a priori m0, "
                     "remove_huge_abs_terms, refine_adjustment); histories up to length 4 (5) over three networks are replayed by "
                     "harness/drv_localnet, every answer is compared with a fresh object given the same configuration and content, and the flags "
                     "logged through VerifProbe are validated by TraceLocalNet.tla", ref="8/C04"),
    "C11": dict(cat="model_checking", technique="TLC model checking of grammar x parser-automaton products (GKFparser, DataParser table extracted from the sources) + replay of all emitted documents / transitions under ASan/UBSan + mutation sweep",
                text="(1) GkfModel.tla: product of the documented element grammar and a transcription of GKFparser's (state, tag) automaton, model "
                     "checked by TLC (Inclusion, ErrorHasLine, StopOnlyAtEnd, Completeness, Exactness up to named deviations, ErrorAbsorbing); every "
                     "event sequence up to the bound is materialised and parsed by gama-local under ASan+UBSan: verdict and error line must be the "
                     "model's. (2) GkfClusters.tla: sequences of clusters with well- and malformed covariance matrices, the verdict of a cluster is "
                     "independent of its neighbours. (3) GkfAttrs.tla: the attribute schema of every element (type, required) x ways of corrupting one "
                     "or two elements (missing, bad number, text, empty, bad enumeration value, unknown attribute, value outside its domain): refused at "
                     "the line of the first corrupted element, or accepted under the named deviations D1-D3; 5 384 documents in the quick tier. (4) "
                     "deterministic mutation / truncation sweep of repository inputs. (5) G3Parser.tla: the control table of DataParser (gama-g3 input and "
                     "results, adj-input-data), extracted from the init() calls of the working tree on every run, model checked exhaustively (Located, "
                     "ErrorAbsorbing, ErrorNeverAccepted, Nesting, NoNullHandler, StopIsRoot, ZeroIsError, consistency of the table); every transition "
                     "is rendered as a document and replayed on the real parser chunk by chunk (states, error flag, diagnostic line, outcome; plain and "
                     "ASan/UBSan builds). ",
                note="trusted: ASan/UBSan/timeouts as observers of memory safety and termination; expat for well-formedness errors; attribute-level "
                     "and literal-level grammar, chunked delivery is checked for GKFparser; handlers of DataParser with semantic checks may refuse earlier than the control model (counted in the evidence); the adjustment-results reader is covered by the mutation sweep and C12", ref="8/C11"),
    "C06": dict(cat="exploration", technique="TLC-generated survey sessions (SurveySession.tla) replayed on gama-local; truth law adjusted = generating coordinates",
                text="SurveySession.tla builds networks from 12 templates (intersections, traverse, trilateration, polar 3-D, vectors, levelling, free "
                     "stations, free networks, mixed vector / slope-distance network) in all axes conventions and circle orientations, with observation "
                     "values computed from the true lattice coordinates. Truth law: adjusted = generating coordinates and zero residuals with "
                     "approximate coordinates given, omitted (all documented subsets) or perturbed by 30 / 100 / 600 mm (distinct per point and "
                     "coordinate), with instrument / target heights (both, one-sided, above and below tol-abs), with further consistent observations, "
                     "for all four algorithms, and with omitted coordinates under permuted documents and renamed points; for noisy observations the result must not depend on the perturbed approximate coordinates. "
                     "AcordModel.tla states the documented strategy for approximate coordinates as a monotone closure (outer bearings, distances, inner "
                     "angles to known points; inserted traverse), TLC checks that every constructed point is in the closure and that added observations "
                     "never shrink it, and emits every construction history (polar by direction / angle, intersection, resection by directions / angles, "
                     "trilateration, two distances + bearing, inserted traverse, in every order over 4-5 points, plus further observations); each network "
                     "is written without approximate coordinates under names and document orders that hide the construction order and every point of the "
                     "closure must come out at its true position. AcordHeights.tla does the same for heights (levelled differences, zenith angles with slope / "
                     "horizontal distance or alone, vectors, either direction, every spanning tree), Acord3D.tla for spatial constructions in which "
                     "position and height have to be derived in a particular order.",
                note="trusted: textbook observation formulas in tools/session.py; the closure is one-sided (nothing is claimed for points outside it) "
                     "and covers horizontal positions; heights are covered by the OmitApprox edits of the templates", ref="8/C06"),
    "C07": dict(cat="exploration", technique="TLC-generated edit sessions replayed on gama-local; per-edit laws checked on results projected to the physical frame",
                text="Noisy networks of SurveySession.tla are re-expressed by Translate, RotateCircle, Permute, Rename (incl. non-ASCII), SwitchUnits, "
                     "SwapEnds and MirrorAxes (8 axes x 2 angle senses), one edit exhaustively (thinned) and random 4-edit sessions (TLC -simulate). "
                     "Results are projected back into the physical east-north-up frame (coordinates, covariances, ellipses, adjusted observations, "
                     "orientation unknowns, statistics) and must satisfy the law of the edit.",
                note="trusted: projection code; tolerances 3e-6 m, 3e-7 gon, 5e-5 relative (printed precision, iteration threshold)", ref="8/C07"),
    "C09": dict(cat="exploration", technique="result invariant StatsConsistent on every run of TLC-generated sessions + SetSigmaApr/SetConfPr laws",
                text="Every adjusted result of SurveySession sessions (noisy networks, both sigma-act settings, conf-pr grid, sigma-apr factors, four "
                     "algorithms) is checked field against field: dof = eq - unk + defect, aposteriori = sqrt(v'Pv/dof), confidence scale against the "
                     "normal/Student reference table, test interval against chi-square, ellipse semi-axes/eigen-direction against the 2x2 covariance, "
                     "homogenised projector h recovered from the reported sigma of each adjusted observation: qrr = (1-h)/p, f, standardised residual, "
                     "sum(1-h) = dof; laws of SetSigmaApr and SetConfPr between runs.",
                note="trusted: quantile table generated once with scipy (spec/data/quantiles_ref.json); a priori sigmas are those of the generated input; "
                     "observations in correlated clusters are excluded from the per-observation identities", ref="8/C09"),
    "C02": dict(cat="exploration", technique="TLC-generated exact cases + TLC-generated sessions; pairwise SetAlgorithm law",
                text="The four algorithms are compared pairwise on every LsqCases problem through both solver entry points (defect, x, residuals, "
                     "sum of squares, every q_xx and q_bb), on levelling networks through gama-local, and in SurveySession sessions where the edit "
                     "SetAlgorithm (law: nothing changes) is applied alone, mixed with other edits on noisy 1-D/2-D/3-D networks, and after WeakPoint (a point "
                     "removed for its huge covariance: second adjustment on the same solver object with renumbered unknowns); the outcome class "
                     "of ill-posed inputs is compared in C20.",
                note="trusted: as C01/C07; conditioning-proportional tolerances are replaced by a well-conditioned universe with exactly known rank", ref="8/C02"),
    "C08": dict(cat="exploration", technique="TLC-generated ChangeDatum sessions + exact null-space certificate at the API",
                text="API: for every singular LsqCases problem and every admissible subset S the returned x satisfies G_S'x_S = 0 with TLC's exact integer "
                     "null space (minimal norm over S). Network: ChangeDatum sessions on the free 2-D template (five constraint sets, all axes "
                     "conventions, four algorithms): residuals, v'Pv, dof, adjusted observations and sigmas and all inter-point distances are equal; "
                     "corrections of constrained points sum to zero and have zero moment when no azimuth fixes the rotation.",
                note="orthogonality is asserted on the final re-linearised solution to 5e-6 m; 3-D free networks are not generated", ref="8/C08"),
    "C13": dict(cat="exploration", technique="TLC-generated sessions ending in ExportReimport(n); abstract-survey equality + result equality",
                text="Law ExportReimport of SurveySession.tla: the file written by --export describes the same abstract survey (points and status, "
                     "observations with values, standard deviations, covariance matrices, instrument / target heights, extern keys, parameters incl. "
                     "latitude, ellipsoid, algorithm, cov-band) with approximate := adjusted coordinates, and adjusting it gives the same result without "
                     "further linearization iterations; applied 1..3 times, after edits that change units, heights, axes, ids or use optional forms of "
                     "the input language (InputFeatures: split observed coordinates, <dh> with dist, directions and angles with heights, extern, "
                     "ellipsoid parameters); also exported without any other output. ",
                note="trusted: ElementTree reader in tools/checks/c13.py; special characters in ids/descriptions belong to C12", ref="8/C13"),
    "C20": dict(cat="exploration", technique="exact admissibility (TLC null space) at the API + TLC-generated ill-posed sessions x 4 algorithms",
                text="API: problems whose regularisation subset does not resolve the defect (decided exactly by rank of the restricted integer null "
                     "space) must be refused by every solver entry point; flagged dependent unknowns must be truly dependent (exact determinant test). "
                     "Network: MakeFree(s) and Isolate edits of SurveySession.tla with the expected adjustability from the datum-defect table (incl. constraint "
                     "sets with exactly as many coordinates as the defect; every signature says whether the model calls the set ill-posed or well-posed); outcome, "
                     "removed points and results must be equal for the four algorithms, and no output may contain a non-finite number.",
                note="several genuine defects are recorded as known findings (null_space() stripping); the datum-defect table covers the templates only", ref="8/C20"),
    "C05": dict(cat="exploration", technique="TLC-enumerated lattice configurations with exact rational partial derivatives, compared with project_equations()",
                text="Linearization.tla enumerates observation type x Pythagorean offsets (all octants) x vertical offsets x 8 axes-xy x 2 angle senses x "
                     "free/fixed masks x observed-minus-computed values incl. ones that force the wrap at 200/400 gon, and states the exact rational "
                     "partial derivatives written from the observation functions. harness/drv_lin dumps LocalNetwork::project_equations(A,b,w) of the "
                     "materialised input; every coefficient (chain rule to gama's internal, possibly y-flipped, axes), the orientation coefficient, the "
                     "index assignment (bijection, y follows x) and the right-hand side are compared to 1e-9.",
                note="trusted: factor 2000/pi (rad/m -> cc/mm), textbook observation values; vector / observed-coordinate rows only through C06/C07/C13", ref="8/C05"),
    "C10": dict(cat="exploration", technique="exact weights from TLC (API + gama-local) + paired-variant laws + cluster-level malformed matrices",
                text="Problems with banded / full covariance blocks (incl. wide band blocks dim 6..8) are solved by every entry point and, as levelling "
                     "networks, through gama-local; the solution must satisfy the normal equations with the exact inverse covariance from TLC. Laws on "
                     "paired inputs: diagonal cov-mat == per-observation sigma; a blundered observation inside a correlated cluster is excluded and the "
                     "result equals the input with the observation deleted and the sub-matrix written explicitly (activeCov). Malformed matrices of "
                     "GkfClusters.tla must be refused with a located diagnostic.",
                note="trusted: as C01; exclusion is provoked through tol-abs (5 m blunder)", ref="8/C10"),
    "C14": dict(cat="exploration", technique="TLC-generated Blunder/Isolate sessions; exclusion <=> misclosure > tol-abs; Exclude == Delete law",
                text="Blunder(obs, pct, tol) of SurveySession.tla gives one observation of a consistent, maximally redundant template network a positional "
                     "misclosure of 99, 101 or 300 % of tol-abs (1, 10, 1000 mm): it must be excluded exactly when pct > 100, be listed under the outlying "
                     "absolute terms, and the result must equal that of the input with the observation deleted. Isolate adds a point with a single "
                     "determining element: it must be removed, not adjusted, and be reported, and the result must equal that of the network without it. "
                     "LoneSet adds a direction set whose 1-3 readings all go to one target (excluded: result equals the input without the set); WeakPoint "
                     "adds a point tied by observations of no weight (removed for its huge covariance, reported, result equals the input without it).",
                note="points without coordinates are covered through C06/C20 sessions only", ref="8/C14"),
    "C12": dict(cat="exploration", technique="TLC-checked escape law + TLC-enumerated identifier strings; writer -> two independent readers; language/tool laws",
                text="XmlResult.tla states the escape function of the XML recommendation and TLC checks Unescape(Escape(s)) = s on all strings over "
                     "{a < > & ' \" e-acute blank} up to length 3; the strings become point ids and descriptions of generated networks (all --cov-band "
                     "values). The XML written by gama-local must be well-formed and carry the strings unchanged; gama's own readers (read_xml, "
                     "read_html through harness/drv_results) must return the same ids, coordinates, covariance band, orientations, observations and "
                     "statistics as the independent ElementTree reader. The numeric tokens of the text output must be equal for all 11 languages; "
                     "compare-xyz of a result with itself must succeed.",
                note="Octave output, SVG, SQL export and gama-local-deformation are not yet covered; HTML is compared on ids, coordinates and counts only", ref="8/C12"),
    "C17": dict(cat="other", technique="trace validation: table of evaluations of the real functions accepted by Quantiles.tla (TLC)",
                text="harness/drv_statan evaluates gama's Normal, Student, Chi_square and NormalDistribution on a reference grid (39 tail probabilities "
                     "0.0005..0.9995 x degrees of freedom 1..1000), a dense grid of probabilities down to 1e-12 and up to 1-1e-12, and x in [-40, 40]; TLC "
                     "accepts the logged table only if it satisfies the laws of Quantiles.tla in exact integer (FixNum) arithmetic: finite, monotone, "
                     "symmetric, 1 - Phi(Normal(a)) = a, and within 1e-6 / 5e-4 / 5e-3 of the committed reference table.",
                note="the accuracy clause trusts the scipy-generated table spec/data/quantiles_ref.json (TLA+ cannot define transcendental quantiles); "
                     "'every alpha / every dof' is a grid, not a proof", ref="8/C17"),
    "C18": dict(cat="exploration", technique="TLC-enumerated literal strings with DFA verdicts, exact integer angle fields, grid laws; replayed on the real functions",
                text="Literals.tla defines deterministic acceptors of the documented float / integer / d-m-s literals and TLC enumerates every string over "
                     "a 7-symbol alphabet up to length 5 (6 in the thorough tier) with the verdicts: IsFloat, IsInteger and deg2gon must agree exactly. "
                     "Angles.tla computes the degree/minute/second fields of an angle given in cc exactly (1 gon = 3240 arc seconds) at 0..3 decimals: "
                     "gon2deg must print exactly these fields and deg2gon must invert it. Geodesy.tla fixes the grid (all 48 ellipsoids x latitudes incl. "
                     "poles x longitudes incl. +-180 x heights -10 km..20000 km) with exact anchors on the equator and at the poles, and lattice offsets "
                     "in all quadrants for bearing/distance (anti)symmetry and consistency with coordinate differences.",
                note="blh2xyz has no independent definition in TLA+ (trigonometry): round trip + exact anchors only", ref="8/C18"),
    "C15": dict(cat="model_checking", technique="TLC-explored object life-cycle model replayed step by step under ASan + exact algebra cases from TLC",
                text="MatVecObjects.tla is a value-semantics model of three container objects under construct / copy-assign / copy-construct+move / move / "
                     "self-assign / reset / element write with sizes 0, 1x2, 2x2; TLC explores all behaviours up to the bound (plus random walks of length "
                     "9) and every behaviour is replayed on Vec and Mat (ASan+UBSan and plain builds) comparing dimensions and all elements of all "
                     "objects after every step. MatAlgebra.tla supplies small integer matrices with exact products, determinants, adjugates and ranks: "
                     "products, transposes, sums, inv, SVD (reconstruction, orthonormality, rank), pinv (four Moore-Penrose conditions), Cholesky in "
                     "SymMat/BandMat/CovMat storage, and exceptions for non-conforming operands are checked.",
                note="a moved-from object is 'unspecified' in the model (not compared); SymMat/CovMat life cycle, sortvec, transvec and random "
                     "ill-conditioned reals are not covered", ref="8/C15"),
    "C16": dict(cat="exploration", technique="TLC-enumerated sparsity patterns with exact dense data; kernels replayed under ASan",
                text="SparseKernels.tla enumerates all patterns with up to 4 rows over up to 4 columns in three fill orders and derives the dense "
                     "matrix, column graph, connectivity (reachability), normal matrix and exact rank; harness/drv_sparse checks SparseMatrix "
                     "build/transpose/replicate, SparseMatrixGraph adjacency and connected(), that the RCM ordering is a permutation with consistent "
                     "inverse, that the envelope holds the permuted normal matrix (no non-zero outside the profile), that cholDec gives exactly zero "
                     "pivots for dependent unknowns (defect = n - rank) and L D L' = N, that solve() and the sparse inverse satisfy N x = r and NQN = N. BlockDiag.tla enumerates symmetric positive definite band blocks B = U'U "
                     "together with their exact integer Cholesky factor U (in-band zeros, zeros followed by non-zeros in a pivot row): BlockDiagonal "
                     "add_block / replicate / cholDec are compared element by element, alone and in two-block layouts. "
                     "The block-diagonal Cholesky is checked through the homogenised normal equations of C01/C02 (incl. wide band blocks).",
                note="sizes up to 4x4; values are small integers so that rank is numerically unambiguous", ref="8/C16"),
    "C19": dict(cat="exploration", technique="TLC-generated ECEF networks run through gama-g3 (4 algorithms, permuted records) and their project equations through Adj",
                text="G3Session.tla builds consistent global networks: a place on the ellipsoid (equator, mid latitude, near the pole, southern hemisphere, "
                     "antimeridian), 3..5 points with integer ECEF offsets, a spanning tree of GNSS vectors plus redundant ones, optional distances, "
                     "ellipsoidal heights, height differences, zenith angles, horizontal angles (below and above half a circle) and observed "
                     "coordinates, seven status patterns of the n,e / u components (fixed, free, constrained, mixed per point), three covariance "
                     "variants, zero or millimetre noise, given coordinates of the adjusted components displaced by up to 3 cm, and a permutation of "
                     "the records; it computes parameters, equations, defect and redundancy. gama-g3 must reproduce the generating coordinates for "
                     "noise 0 (2e-6 m), report the specified statistics, and give equal results for envelope / cholesky / gso / svd and for permuted "
                     "input; its --project-equations dump, read by gama's DataParser and adjusted by Adj with the four algorithms "
                     "(harness/drv_adjxml), must give the same corrections and sum of squares.",
                note="azimuths are excluded (gama-g3's parser ends with an internal error on <azimuth>); instrument heights, the g3 parser grammar "
                     "and the results reader are not modelled", ref="8/C19, 14"),
}

NOT_APPLICABLE = []


def main():
    checks = []
    for pid in sorted(CHECKS):
        c = CHECKS[pid]
        checks.append({
            "property_id": pid,
            "quick_cmd": "bin/check %s --tier quick" % pid,
            "thorough_cmd": "bin/check %s --tier thorough" % pid,
            "evidence_file": "evidence/%s.json" % pid,
            "replay_cmd_template": "bin/check %s --replay {path}" % pid,
            "engine": "tlc+harness",
            "level_claimed": {"category": c["cat"], "text": c["text"], "design_ref": "DESIGN.md section " + c["ref"]},
            "level_note": c["note"],
            "technique": c["technique"],
        })
    hooks = subprocess.run(["git", "-C", "/repo", "log", "--format=%H %s", "--grep", "verif hooks"], stdout=subprocess.PIPE,
                           universal_newlines=True).stdout.split("\n")
    m = {
        "version": 1,
        "setup_cmd": "bin/setup",
        "hooks": {
            "guard": "GAMA_VERIF",
            "enable": "harness/CMakeLists.txt adds -DGAMA_VERIF and builds /repo's working tree in place into /verif/build/{plain,asan}",
            "baseline_off_cmd": "cmake --build /repo/_build && ctest --test-dir /repo/_build -j8 --timeout 900",
            "source_commits": [h.split(" ")[0] for h in hooks if h.strip()],
            "add_only": True,
        },
        "engines": [
            {"name": "tlc+harness", "path": "bin/check", "serves_properties": sorted(CHECKS),
             "kind_free_text": "TLA+ specifications in spec/ model-checked / enumerated by TLC; C++ drivers in harness/ and python glue in tools/ "
                               "replay TLC-generated cases on the real code and validate recorded traces against the specifications"},
        ],
        "checks": checks,
        "not_applicable": NOT_APPLICABLE,
        "notes": "See DESIGN.md. known-findings.json lists genuine defects (known / fixed).",
    }
    with open(os.path.join(ROOT, "MANIFEST.json"), "w") as f:
        json.dump(m, f, indent=1)
    print("MANIFEST.json: %d checks" % len(checks))


if __name__ == "__main__":
    main()
