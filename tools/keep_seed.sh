#!/bin/sh
# keep_seed.sh <worktree> <seed-id> <property> "<needs>" "<caught by>"
wt=$1; id=$2; prop=$3; needs=$4; caught=$5
d=/verif/seeded/$id
mkdir -p $d
cp $wt/demo/patch.diff $d/patch.diff
for f in demo.cpp BUILD.txt NOTES.txt run.sh demo.sh; do [ -f $wt/demo/$f ] && cp $wt/demo/$f $d/; done
for f in $wt/demo/*.gkf $wt/demo/*.xml $wt/demo/*.py; do [ -f "$f" ] && cp "$f" $d/; done
python3 - "$d" "$prop" "$needs" "$caught" <<'PY'
import json,sys
d,prop,needs,caught=sys.argv[1:5]
json.dump({"property":prop,"needs_to_manifest":needs,"confirmed":"tools/confirm_seed.sh in a scratch worktree: patch applies, builds, existing suite passes (serial / after --rerun-failed; check_deformation_*_diff and sporadic -j8 file races are pre-existing), demo exits 1 with the change and 0 without",
 "checks_run":caught},open(d+"/meta.json","w"),indent=1)
PY
git -C /repo worktree remove --force $wt
echo kept $id
