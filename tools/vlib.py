"""Shared machinery of /verif checks: build of /repo's working tree, TLC runs,
case extraction, known-findings policy, evidence files, VIOLATION lines."""
import fnmatch
import json
import os
import re
import shutil
import subprocess
import sys
import time

ROOT = os.path.dirname(os.path.dirname(os.path.abspath(__file__)))
REPO = os.environ.get("GAMA_REPO", "/repo")
SPEC = os.path.join(ROOT, "spec")
BUILD = os.path.join(ROOT, "build")
OUT = os.path.join(ROOT, "out")
EVID = os.path.join(ROOT, "evidence")
TLA_CP = "/opt/veriftools/tla/tla2tools.jar:/opt/veriftools/tla/CommunityModules-deps.jar"
NCPU = os.cpu_count() or 4


class ModelFailure(Exception):
    """TLC / build / harness failed for a reason that is not a property violation."""


def sh(cmd, timeout=None, cwd=None, env=None, input=None):
    e = dict(os.environ)
    if env:
        e.update(env)
    p = subprocess.run(cmd, cwd=cwd, env=e, input=input, stdout=subprocess.PIPE,
                       stderr=subprocess.STDOUT, timeout=timeout,
                       universal_newlines=True, errors="replace")
    return p.returncode, p.stdout


# ---------------------------------------------------------------- build

def build(kind="plain", targets=None):
    """Incremental build of /repo's current working tree (+ drivers) with -DGAMA_VERIF."""
    bdir = os.path.join(BUILD, kind)
    os.makedirs(bdir, exist_ok=True)
    import fcntl
    lock = open(os.path.join(BUILD, kind + ".lock"), "w")
    fcntl.flock(lock, fcntl.LOCK_EX)          # two checks running side by side must not drive ninja in the same directory at once
    try:
        return _build_locked(bdir, kind, targets)
    finally:
        fcntl.flock(lock, fcntl.LOCK_UN)
        lock.close()


def _build_locked(bdir, kind, targets):
    if not os.path.exists(os.path.join(bdir, "build.ninja")):
        os.makedirs(bdir, exist_ok=True)
        args = ["cmake", "-G", "Ninja", "-S", os.path.join(ROOT, "harness"), "-B", bdir,
                "-DGAMA_REPO=" + REPO]
        if kind == "asan":
            args.append("-DVERIF_SANITIZE=ON")
        rc, out = sh(args, timeout=600)
        if rc != 0:
            raise ModelFailure("cmake configure failed:\n" + out[-4000:])
    cmd = ["ninja", "-C", bdir]
    if targets:
        cmd += list(targets)
    rc, out = sh(cmd, timeout=3000)
    if rc != 0:
        # a new driver file needs a re-glob: reconfigure once
        rc2, out2 = sh(["cmake", bdir], timeout=600)
        rc, out = sh(cmd, timeout=3000)
        if rc != 0:
            raise ModelFailure("build failed (%s):\n%s" % (kind, out[-6000:]))
    return bdir


def binpath(kind, name):
    bdir = os.path.join(BUILD, kind)
    for p in (os.path.join(bdir, name), os.path.join(bdir, "repo", name)):
        if os.path.exists(p):
            return p
    raise ModelFailure("binary %s not built in %s" % (name, bdir))


ASAN_ENV = {"ASAN_OPTIONS": "detect_leaks=0:abort_on_error=0:exitcode=99",
            "UBSAN_OPTIONS": "halt_on_error=1:exitcode=98:print_stacktrace=1"}


# ---------------------------------------------------------------- TLC

class TlcResult:
    def __init__(self):
        self.rc = None
        self.out = ""
        self.generated = 0
        self.distinct = 0
        self.depth = 0
        self.outcome = "error"      # ok | invariant | postcondition | deadlock | property | error | timeout
        self.violated = None
        self.cases = []
        self.coverage = {}
        self.wall = 0.0
        self.trace_text = ""


_case_re = re.compile(r'^"(CASE|REC) ')


def tlc(module, cfg=None, workers=None, timeout=900, env=None, simulate=None, depth=None,
        seed=None, coverage=False, heap="6g", extra=None, tag=None, dump=None, dfs=False,
        keep_out=True):
    """Run TLC on spec/<module>.tla with spec/<cfg>; returns TlcResult. Lines printed by
    the specification as PrintT("CASE " \\o ToJson(..)) are collected into .cases."""
    tag = tag or module
    meta = os.path.join(OUT, "tlc", "%s-%d-%d" % (tag, os.getpid(), int(time.time() * 1000) % 100000000))
    os.makedirs(meta, exist_ok=True)
    jopts = ["-XX:+UseParallelGC", "-Xmx" + heap, "-Xss16m"]
    if dfs:
        jopts.append("-Dtlc2.tool.queue.IStateQueue=StateDeque")
    cmd = ["java"] + jopts + ["-cp", TLA_CP, "tlc2.TLC", "-metadir", meta, "-noGenerateSpecTE"]
    cmd += ["-workers", str(workers or NCPU)]
    if cfg:
        cmd += ["-config", cfg]
    if simulate:
        cmd += ["-simulate", "num=%d" % simulate]
    if depth:
        cmd += ["-depth", str(depth)]
    if seed is not None:
        cmd += ["-seed", str(seed)]
    if coverage:
        cmd += ["-coverage", "1"]
    if dump:
        cmd += ["-dump", "dot,actionlabels", dump]
    if extra:
        cmd += extra
    cmd.append(module + ".tla" if not module.endswith(".tla") else module)
    r = TlcResult()
    t0 = time.time()
    try:
        r.rc, r.out = sh(cmd, timeout=timeout, cwd=SPEC, env=env)
    except subprocess.TimeoutExpired as ex:
        r.outcome = "timeout"
        r.out = (ex.stdout or "") if isinstance(ex.stdout, str) else ""
        r.wall = time.time() - t0
        shutil.rmtree(meta, ignore_errors=True)
        return r
    r.wall = time.time() - t0
    shutil.rmtree(meta, ignore_errors=True)
    out = r.out
    for line in out.splitlines():
        if _case_re.match(line):
            try:
                s = json.loads(line)
                r.cases.append(json.loads(s.split(" ", 1)[1]))
            except Exception as ex:       # a torn line is a model failure, not a violation
                raise ModelFailure("cannot parse emitted case: %r (%s)" % (line[:200], ex))
    m = re.search(r"(\d+) states generated, (\d+) distinct states found", out)
    if m:
        r.generated, r.distinct = int(m.group(1)), int(m.group(2))
    m = re.search(r"depth of the complete state graph search is (\d+)", out)
    if m:
        r.depth = int(m.group(1))
    if coverage:
        for m in re.finditer(r"<(\w+) line \d+, col \d+ to line \d+, col \d+ of module (\w+)>: (\d+):(\d+)", out):
            r.coverage[m.group(1)] = [int(m.group(3)), int(m.group(4))]
    if "Model checking completed. No error has been found." in out or \
       (simulate and "Error:" not in out and r.rc == 0):
        r.outcome = "ok"
    elif re.search(r"Invariant (\S+) is violated", out):
        r.outcome = "invariant"
        r.violated = re.search(r"Invariant (\S+) is violated", out).group(1)
    elif "Deadlock reached" in out:
        r.outcome = "deadlock"
    elif re.search(r"POSTCONDITION.*(false|violated)", out, re.I | re.S) and "Parsing or semantic" not in out:
        r.outcome = "postcondition"
    elif re.search(r"Action property (\S+) is violated|Temporal properties were violated", out):
        r.outcome = "property"
        m = re.search(r"Action property (\S+) is violated", out)
        r.violated = m.group(1) if m else "temporal"
    else:
        r.outcome = "error"
    if r.outcome in ("invariant", "deadlock", "property"):
        i = out.find("Error:")
        r.trace_text = out[i:i + 20000]
    return r


def tlc_ok(module, cfg=None, **kw):
    """TLC run that must complete without error; anything else is a model failure."""
    r = tlc(module, cfg, **kw)
    if r.outcome != "ok":
        raise ModelFailure("TLC %s/%s: outcome=%s rc=%s\n%s" % (module, cfg, r.outcome, r.rc, r.out[-5000:]))
    return r


def parse_dot(path):
    """Parse `-dump dot,actionlabels` output: returns (nodes {id: label}, edges [(src,dst,label)], init ids)."""
    nodes, edges, inits = {}, [], []
    node_re = re.compile(r'^(-?\d+) \[label="(.*)"(,style = filled)?\]')
    edge_re = re.compile(r'^(-?\d+) -> (-?\d+) \[label="(.*?)"')
    with open(path) as f:
        for line in f:
            m = edge_re.match(line)
            if m:
                edges.append((m.group(1), m.group(2), m.group(3)))
                continue
            m = node_re.match(line)
            if m:
                nodes[m.group(1)] = m.group(2).replace("\\n", "\n").replace('\\"', '"').replace("\\\\", "\\")
                if m.group(3):
                    inits.append(m.group(1))
    return nodes, edges, inits


# ---------------------------------------------------------------- known findings

def load_known():
    p = os.path.join(ROOT, "known-findings.json")
    if not os.path.exists(p):
        return []
    with open(p) as f:
        return json.load(f).get("findings", [])


# ---------------------------------------------------------------- check context

class Ctx:
    def __init__(self, pid, tier, seed, level):
        self.pid, self.tier, self.seed, self.level = pid, tier, seed, level
        self.t0 = time.time()
        self.cov = {}
        self.samples = []
        self.assumptions = []
        self.viol = []          # (sig, text, replay path)
        self.known_hit = {}     # sig pattern -> count
        self.known = [k for k in load_known() if k.get("property") == pid and k.get("status") == "known"]
        self.outdir = os.path.join(OUT, pid)
        os.makedirs(self.outdir, exist_ok=True)
        for f in os.listdir(self.outdir):
            if f.startswith("viol-"):
                os.remove(os.path.join(self.outdir, f))
        self.nviol_files = 0
        self.sigcount = {}
        self.notes = []

    @property
    def quick(self):
        return self.tier == "quick"

    def add(self, key, n=1):
        self.cov[key] = self.cov.get(key, 0) + n

    def sample(self, obj, limit=6):
        if len(self.samples) < limit:
            self.samples.append(obj)

    def assume(self, text):
        if text not in self.assumptions:
            self.assumptions.append(text)

    def note(self, text):
        print("  . " + text)
        sys.stdout.flush()
        self.notes.append(text)

    def violation(self, sig, text, replay=None):
        """Report a discrepancy. sig identifies the failing input class / call site / history;
        a signature listed in known-findings.json (status known) is printed as KNOWN-FINDING."""
        for k in self.known:
            if fnmatch.fnmatchcase(sig, k["signature"]):
                c = self.known_hit.get(k["signature"], 0)
                self.known_hit[k["signature"]] = c + 1
                return False
        n = self.sigcount.get(sig, 0)
        self.sigcount[sig] = n + 1
        if n < 3 and len(self.sigcount) <= 80:
            path = None
            if self.nviol_files < 60 or (n == 0 and self.nviol_files < 400):       # the first occurrence of every signature gets its replay file
                self.nviol_files += 1
                path = os.path.join(self.outdir, "viol-%d.json" % self.nviol_files)
                with open(path, "w") as f:
                    json.dump({"property": self.pid, "signature": sig, "text": text, "replay": replay}, f, indent=1, default=str)
            self.viol.append((sig, text, path))
        return True

    def finish(self, coverage):
        wall = time.time() - self.t0
        cov = dict(coverage)
        cov.setdefault("samples", self.samples[:8] or ["(none)"])
        for k, v in self.cov.items():
            cov.setdefault(k, v)
        cov["known_findings_hit"] = self.known_hit
        ev = {"property_id": self.pid, "tier": self.tier, "seed": self.seed, "level": self.level,
              "coverage": cov, "assumptions": self.assumptions, "wall_s": round(wall, 2),
              "violations": sum(self.sigcount.values())}
        os.makedirs(EVID, exist_ok=True)
        with open(os.path.join(EVID, self.pid + ".json"), "w") as f:
            json.dump(ev, f, indent=1, default=str)
        for k in self.known:
            n = self.known_hit.get(k["signature"], 0)
            if n:
                print("KNOWN-FINDING: property=%s %s [%s] (%d occurrences this run)" % (self.pid, k["what"], k["signature"], n))
        seen = set()
        for sig, text, path in self.viol:
            if sig in seen and len(seen) > 0:
                continue
            seen.add(sig)
            print("VIOLATION property=%s replay=%s" % (self.pid, path or os.path.join(self.outdir, "viol-1.json")))
            print("   signature: %s (%d occurrences)" % (sig, self.sigcount.get(sig, 1)))
            print("   " + text.replace("\n", "\n   ")[:1500])
        print("%s %s: %s in %.1fs; %d violation(s), %d known-finding signature(s) hit" % (
            self.pid, self.tier, "FAIL" if self.viol else "ok", wall, len(self.viol), len([1 for v in self.known_hit.values() if v])))
        return 1 if self.viol else 0


def read_ndjson(path):
    with open(path) as f:
        return [json.loads(l) for l in f if l.strip()]


def write_ndjson(path, recs):
    with open(path, "w") as f:
        for r in recs:
            f.write(json.dumps(r, separators=(",", ":")) + "\n")
