"""StatsConsistent: the invariant of SurveySession.result checked on every projected adjustment
(property C09): every statistic of the XML result is recomputed from the other fields."""
import json, math, os
import vlib, gl, session

_REF = None


def ref():
    global _REF
    if _REF is None:
        _REF = json.load(open(os.path.join(vlib.SPEC, "data", "quantiles_ref.json")))
    return _REF


def quantile(kind, alpha, dof=None):
    R = ref()
    for i, a in enumerate(R["alphas"]):
        if abs(a - alpha) < 1e-12:
            if kind == "normal":
                return R["normal"][i]
            tab = R[kind].get(str(dof))
            return tab[i] if tab else None
    return None


def close(a, b, tol, floor=1e-12):
    return abs(a - b) <= tol * max(abs(a), abs(b), floor)


def check_stats(res, sv, report, obs_sigma=None):
    """res: gl.parse_adjustment result; sv: the survey (for a priori sigmas); report(check, text)"""
    if res.get("outcome") != "adjusted":
        return 0
    n = 0
    dof = res["dof"]
    if dof != res["equations"] - res["unknowns"] + res["defect"]:
        report("dof", "degrees of freedom %d != %d - %d + %d" % (dof, res["equations"], res["unknowns"], res["defect"]))
    if len(res["obs"]) != res["equations"]:
        report("equations", "%d observations listed, %d equations reported" % (len(res["obs"]), res["equations"]))
    n += 2
    pvv = res["pvv"]
    if dof > 0:
        if not close(res["aposteriori"], math.sqrt(max(pvv, 0) / dof), 2e-6, 1e-9):
            report("aposteriori", "aposteriori %r != sqrt(%r / %d)" % (res["aposteriori"], pvv, dof))
        n += 1
    m0 = res["apriori"] if res["used"] == "apriori" else res["aposteriori"]
    if res["used"] not in ("apriori", "aposteriori"):
        report("used", "unknown type of reference deviation %r" % res["used"])
    # confidence scale: normal (apriori) or Student (aposteriori) upper quantile of (1 - p)/2
    alpha = (1 - res["probability"]) / 2
    q = quantile("normal", alpha) if res["used"] == "apriori" else quantile("student", alpha, dof)
    if q is not None:
        n += 1
        tol = 1e-6 if res["used"] == "apriori" else 5e-4
        if not close(res["conf_scale"], q, tol):
            report("conf_scale", "confidence-scale %r, %s quantile for tail %g%s is %r" % (
                res["conf_scale"], "normal" if res["used"] == "apriori" else "Student", alpha, "" if res["used"] == "apriori" else " dof %d" % dof, q))
    # ratio and its interval
    if dof > 0:
        if abs(res["ratio"] - res["aposteriori"] / res["apriori"]) > 6e-4:       # printed with 3 decimals
            report("ratio", "ratio %r != aposteriori/apriori %r" % (res["ratio"], res["aposteriori"] / res["apriori"]))
        lo, up = quantile("chi2", 1 - alpha, dof), quantile("chi2", alpha, dof)
        if lo is not None and up is not None:
            n += 1
            elo, eup = math.sqrt(lo / dof), math.sqrt(up / dof)
            if abs(res["lower"] - elo) > 6e-3 * max(1, elo) or abs(res["upper"] - eup) > 6e-3 * max(1, eup):
                report("interval", "test interval (%r, %r), chi-square gives (%.4f, %.4f)" % (res["lower"], res["upper"], elo, eup))
            inside = res["lower"] < res["ratio"] < res["upper"]
            if res["passed"] != inside and abs(res["ratio"] - res["lower"]) > 2e-3 and abs(res["ratio"] - res["upper"]) > 2e-3:
                report("passed", "passed=%s but ratio %r interval (%r, %r)" % (res["passed"], res["ratio"], res["lower"], res["upper"]))
    # error ellipses from the 2x2 covariance block
    cov = gl.cov_full(res)
    order = gl.unknown_order(res)
    pos = {}
    for k, (pid, c) in enumerate(order, 1):
        pos[(pid, c.lower())] = k
    for el in res["ellipses"]:
        ix, iy = pos.get((el["id"], "x")), pos.get((el["id"], "y"))
        if not ix or not iy or (min(ix, iy), max(ix, iy)) not in cov:
            continue
        cxx, cyy, cxy = cov[(ix, ix)], cov[(iy, iy)], cov[(min(ix, iy), max(ix, iy))]
        a2, b2 = el["major"] ** 2, el["minor"] ** 2
        n += 1
        if not close(a2 + b2, cxx + cyy, 1e-5) or abs(a2 * b2 - (cxx * cyy - cxy * cxy)) > 1e-5 * max(a2 * a2, 1e-12):
            report("ellipse", "ellipse of %s: a^2+b^2 = %r vs trace %r; a^2 b^2 = %r vs det %r" % (el["id"], a2 + b2, cxx + cyy, a2 * b2, cxx * cyy - cxy * cxy))
        elif a2 > 1.0001 * b2:
            # (C - a^2 I) d = 0 for the direction d of the major axis; the sign convention of the bearing is checked in C07
            ca, sa = math.cos(el["alpha"]), math.sin(el["alpha"])
            r1 = (cxx - a2) * ca + abs(cxy) * abs(sa) * (1 if (cxy * sa * ca) >= 0 else -1) * (1 if ca >= 0 else -1) * 0
            # use the sign-free form: tan(2 alpha) = 2 cxy / (cxx - cyy) up to the mirror image
            lhs = abs(math.sin(2 * el["alpha"]) * (cxx - cyy))
            rhs = abs(2 * cxy * math.cos(2 * el["alpha"]))
            if abs(lhs - rhs) > 1e-4 * max(abs(cxx) + abs(cyy), 1e-12):
                report("ellipse_alpha", "ellipse of %s: alpha %r is not an eigen-direction of [[%r,%r],[.,%r]]" % (el["id"], el["alpha"], cxx, cxy, cyy))
    # observations: h = homogenised q_bb from the reported stdev of the adjusted observation
    # an accidentally consistent network adjusted with the a posteriori deviation has m0 = rounding noise: nothing to compare
    if obs_sigma is not None and res["used"] in ("apriori", "aposteriori") and m0 > 1e-6 * res["apriori"]:
        red = 0.0
        ok = True
        for o, s_obs in zip(res["obs"], obs_sigma):
            if s_obs is None or "stdev" not in o:
                ok = False
                continue
            h = (o["stdev"] * res["apriori"] / (m0 * s_obs)) ** 2
            red += 1 - h
            if h < -1e-6 or h > 1 + 1e-6:
                report("projector", "observation %s: homogenised cofactor of the adjusted observation %r outside [0,1]" % (o["type"], h))
            qrr = (1 - h) * (s_obs / res["apriori"]) ** 2
            if "qrr" in o and abs(o["qrr"] - qrr) > 6e-4 + 2e-3 * abs(qrr):
                report("qrr", "observation %s %s->%s: qrr %r, 1/p - q_L = %r" % (o["type"], o.get("from"), o.get("to"), o["qrr"], qrr))
            f = 100 * abs(1 - math.sqrt(max(h, 0)))
            if "f" in o and abs(o["f"] - f) > 6e-4 + 1e-3 * f:
                report("f", "observation %s %s->%s: f %r, 100(1 - sqrt(h)) = %r" % (o["type"], o.get("from"), o.get("to"), o["f"], f))
            if "std-residual" in o and qrr > 1e-9:
                scale = 1000.0 if o["type"] in ("distance", "slope-distance", "height-diff", "dx", "dy", "dz", "coordinate-x", "coordinate-y", "coordinate-z") else 10000.0
                v = (o["adj"] - o["obs"])
                if o["type"] in ("direction", "angle", "azimuth", "zenith-angle"):
                    v = session.wrap200(v)
                sr = abs(v * scale) / (m0 * math.sqrt(qrr))
                if abs(o["std-residual"] - sr) > 2e-3 + 2e-3 * sr:
                    report("std_residual", "observation %s %s->%s: std-residual %r, |v|/(m0 sqrt(qrr)) = %r" % (o["type"], o.get("from"), o.get("to"), o["std-residual"], sr))
            n += 3
        if ok and abs(red - dof) > 1e-4 * max(1, dof):
            report("redundancy", "sum of redundancy numbers %r != degrees of freedom %d" % (red, dof))
    return n
