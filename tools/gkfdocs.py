"""Materialise event sequences of spec/GkfModel.tla into gama-local input documents:
one event per line, every element with valid attributes, cov-mat consistent with the
number of observations that precede it in its cluster."""

HEADER = '<?xml version="1.0" ?>'
PTS = ["A", "B", "C", "D", "E"]

LEAF_ATTR = {
    "description": None,
    "parameters": 'sigma-apr="10" conf-pr="0.95" tol-abs="1000" sigma-act="apriori"',
    "direction": 'to="%(p)s" val="%(v)s" stdev="10"',
    "distance": 'to="%(p)s" val="100.%(k)d" stdev="5"',
    "angle": 'bs="%(p)s" fs="%(q)s" val="%(v)s" stdev="10"',
    "s-distance": 'to="%(p)s" val="100.%(k)d" stdev="5"',
    "z-angle": 'to="%(p)s" val="100.0%(k)d" stdev="10"',
    "azimuth": 'to="%(p)s" val="%(v)s" stdev="10"',
    "dh": 'from="A" to="%(p)s" val="1.%(k)d" stdev="2"',
    "vec": 'from="A" to="%(p)s" dx="1%(k)d" dy="2%(k)d" dz="3%(k)d"',
    "bogus": 'x="1"',
}
OPEN_ATTR = {
    "gama-local": 'xmlns="http://www.gnu.org/software/gama/gama-local"',
    "network": 'axes-xy="ne" angles="left-handed"',
    "points-observations": 'distance-stdev="5 3 1" direction-stdev="10" angle-stdev="10" zenith-angle-stdev="10" azimuth-stdev="10"',
    "obs": 'from="A"',
    "height-differences": "",
    "coordinates": "",
    "vectors": "",
}
PER_CHILD = {"obs": 1, "height-differences": 1, "coordinates": 2, "vectors": 3}


def materialise(events, open_tags=()):
    """returns (text, line_of_event[1..n]) ; the document is completed by closing what is open"""
    lines = [HEADER]
    ev_line = {}
    stack = []          # [tag, nobs]
    k = 0
    for i, ev in enumerate(events, 1):
        tag = ev["tag"]
        k += 1
        p = PTS[1 + k % 4]
        q = PTS[1 + (k + 1) % 4]
        sub = {"p": p, "q": q, "k": k % 10, "v": "%d.%d" % (10 * (k % 30), k % 10)}
        if ev["e"] == "close":
            lines.append("</%s>" % tag)
            stack.pop()
        else:
            ctx = stack[-1] if stack else None
            if tag == "cov-mat":
                dim = max(1, (ctx[1] if ctx else 1))
                att = 'dim="%d" band="0"' % dim
                body = " ".join(["4"] * dim)
                if ev["e"] == "leaf":
                    lines.append("<cov-mat %s>%s</cov-mat>" % (att, body))
                else:
                    lines.append("<cov-mat %s>%s" % (att, body))
            elif tag == "point":
                inside_coords = ctx is not None and ctx[0] == "coordinates"
                att = 'id="%s" x="%d" y="%d"' % (p, 100 + k, 200 + k) if inside_coords else 'id="%s" x="%d" y="%d" z="%d" adj="xyz"' % (p, 100 + k, 200 + k, 10 + k)
                lines.append("<point %s%s>" % (att, " /" if ev["e"] == "leaf" else ""))
            elif tag == "description":
                lines.append("<description>text %d</description>" % k if ev["e"] == "leaf" else "<description>text")
            elif tag in OPEN_ATTR:
                lines.append("<%s %s%s>" % (tag, OPEN_ATTR[tag], " /" if ev["e"] == "leaf" else ""))
            else:
                att = (LEAF_ATTR.get(tag) or "") % sub
                lines.append("<%s %s%s>" % (tag, att, " /" if ev["e"] == "leaf" else ""))
            if ctx is not None and tag != "cov-mat":
                ctx[1] += PER_CHILD.get(ctx[0], 0)
            if ev["e"] == "open":
                stack.append([tag, 0])
        ev_line[i] = len(lines)
    while stack:
        lines.append("</%s>" % stack.pop()[0])
    return "\n".join(lines) + "\n", ev_line


# ---------------------------------------------------------------- cluster-level documents (spec/GkfClusters.tla)
def cov_text(kind, nobs):
    """cov-mat element for nobs observations, malformed in the named way"""
    if kind == "none":
        return None
    dim, band = nobs, 0
    diag, off = "4", "1"
    if kind == "okband":
        band = 1
    if kind == "dimplus":
        dim = nobs + 1
    if kind == "dimminus":
        dim = nobs - 1
    if kind == "bandbig":
        band = max(dim, 1)
    if kind == "notpd":
        band = min(1, max(dim - 1, 0))
        off = "9"            # |off| > diag: indefinite (a 1x1 matrix gets a negative variance instead)
        if dim <= 1:
            diag = "-4"
    if kind == "zerovar":
        diag = "0"
    el = []
    for i in range(max(dim, 0)):
        for j in range(i, min(dim, i + band + 1)):
            el.append(diag if i == j else off)
    if kind == "few":
        el = el[:-1]
    if kind == "many":
        el = el + ["4"]
    if kind == "badnum" and el:
        el[-1] = "4x"
    return '<cov-mat dim="%d" band="%d">%s</cov-mat>' % (dim, band, " ".join(el))


def cluster_doc(doc):
    """returns (text, end_line_of_cluster[1..n])"""
    lines = [HEADER, '<gama-local xmlns="http://www.gnu.org/software/gama/gama-local">', "<network>",
             '<parameters sigma-apr="10" sigma-act="apriori" />', "<points-observations>",
             '<point id="A" x="0" y="0" z="0" fix="xyz" />', '<point id="B" x="100" y="0" z="1" adj="xyz" />',
             '<point id="C" x="100" y="100" z="2" adj="xyz" />', '<point id="D" x="0" y="100" z="3" adj="xyz" />']
    ends = {}
    tgt = ["B", "C", "D"]
    for k, c in enumerate(doc, 1):
        t, n = c["t"], c["n"]
        nobs = n * {"coordinates": 2, "vectors": 3}.get(t, 1)
        if t == "obs":
            lines.append('<obs from="A">')
            for i in range(n):
                lines.append('<distance to="%s" val="%d.5" stdev="5" />' % (tgt[i], 100 + 41 * i))
        elif t == "height-differences":
            lines.append("<height-differences>")
            for i in range(n):
                lines.append('<dh from="A" to="%s" val="%d.001" stdev="2" />' % (tgt[i], i + 1))
        elif t == "coordinates":
            lines.append("<coordinates>")
            for i in range(n):
                lines.append('<point id="%s" x="%d.01" y="%d.02" />' % (tgt[i], [100, 100, 0][i], [0, 100, 100][i]))
        else:
            lines.append("<vectors>")
            for i in range(n):
                lines.append('<vec from="A" to="%s" dx="%d.01" dy="%d.02" dz="%d.003" />' % (tgt[i], [100, 100, 0][i], [0, 100, 100][i], i + 1))
        ct = cov_text(c["cov"], nobs)
        if ct:
            lines.append(ct)
        lines.append("</%s>" % t)
        ends[k] = len(lines)
    lines += ["</points-observations>", "</network>", "</gama-local>"]
    return "\n".join(lines) + "\n", ends


# ---------------------------------------------------------------- attribute level (spec/GkfAttrs.tla)
# the valid base document: one element per line; key = element class of GkfAttrs.tla (None for lines that are never corrupted)
ATTR_BASE = [
    (None, '<?xml version="1.0" ?>'),
    (None, '<gama-local xmlns="http://www.gnu.org/software/gama/gama-local">'),
    ("network", ("network", [("axes-xy", "ne"), ("angles", "left-handed"), ("epoch", "2020.5")], False)),
    (None, "<description>attribute level</description>"),
    ("parameters", ("parameters", [("sigma-apr", "10"), ("conf-pr", "0.95"), ("tol-abs", "1000"), ("sigma-act", "apriori"), ("algorithm", "gso"),
                                   ("angular", "400"), ("latitude", "50"), ("cov-band", "-1")], True)),
    ("pobs", ("points-observations", [("distance-stdev", "5 3 1"), ("direction-stdev", "10"), ("angle-stdev", "10"), ("zenith-angle-stdev", "10"),
                                      ("azimuth-stdev", "10")], False)),
    ("fixpoint", ("point", [("id", "A"), ("x", "0"), ("y", "0"), ("z", "0"), ("fix", "xyz")], True)),
    (None, '<point id="B" x="100" y="0" z="1" fix="xyz" />'),
    ("point", ("point", [("id", "C"), ("x", "100"), ("y", "100"), ("z", "2"), ("adj", "xyz")], True)),
    (None, '<point id="D" x="0" y="100" z="3" adj="xyz" />'),
    ("obs", ("obs", [("from", "A"), ("orientation", "0"), ("from_dh", "0")], False)),
    ("direction", ("direction", [("to", "B"), ("val", "0.0010"), ("stdev", "10"), ("from_dh", "0"), ("to_dh", "0"), ("extern", "e1")], True)),
    (None, '<direction to="C" val="50.0005" />'),
    (None, '<direction to="D" val="99.9990" />'),
    ("distance", ("distance", [("to", "C"), ("val", "141.4224"), ("stdev", "5"), ("from_dh", "0"), ("to_dh", "0"), ("extern", "e2")], True)),
    ("angle", ("angle", [("bs", "B"), ("fs", "D"), ("val", "100.0012"), ("stdev", "10"), ("from_dh", "0"), ("bs_dh", "0"), ("fs_dh", "0"), ("extern", "e3")], True)),
    ("sdistance", ("s-distance", [("to", "D"), ("val", "100.0460"), ("stdev", "5"), ("from_dh", "0"), ("to_dh", "0"), ("extern", "e4")], True)),
    ("zangle", ("z-angle", [("to", "C"), ("val", "99.0990"), ("stdev", "10"), ("from_dh", "0"), ("to_dh", "0"), ("extern", "e5")], True)),
    ("azimuth", ("azimuth", [("to", "B"), ("val", "0.0020"), ("stdev", "10"), ("from_dh", "0"), ("to_dh", "0"), ("extern", "e6")], True)),
    (None, "</obs>"),
    (None, "<height-differences>"),
    ("dh", ("dh", [("from", "A"), ("to", "C"), ("val", "2.0010"), ("stdev", "2"), ("dist", "0.1"), ("extern", "e7")], True)),
    (None, '<dh from="B" to="D" val="1.9990" stdev="2" />'),
    (None, "</height-differences>"),
    (None, "<coordinates>"),
    ("cpoint", ("point", [("id", "C"), ("x", "100.0010"), ("y", "99.9990"), ("z", "2.0010")], True)),
    ("covmat", ("cov-mat", [("dim", "3"), ("band", "0")], False)),
    (None, "4 4 4 </cov-mat>"),
    (None, "</coordinates>"),
    (None, "<vectors>"),
    ("vec", ("vec", [("from", "A"), ("to", "D"), ("dx", "0.0010"), ("dy", "100.0020"), ("dz", "3.0010"), ("extern", "e8")], True)),
    (None, '<cov-mat dim="3" band="0"> 4 4 4 </cov-mat>'),
    (None, "</vectors>"),
    (None, "</points-observations>"),
    (None, "</network>"),
    (None, "</gama-local>"),
]
BAD_VALUE = {"badnum": "12x", "text": "abc", "empty": "", "badenum": "zz", "huge": "1e999"}
DOMAIN_VALUE = {"posnum": "-1", "prob": "1.5", "nat": "-1"}


def attr_doc(muts):
    """returns (text, line of every element class)"""
    lines, at = [], {}
    bykey = {}
    for m in muts:
        bykey.setdefault(m["e"], []).append(m)
    for key, item in ATTR_BASE:
        if key is None:
            lines.append(item)
            continue
        tag, attrs, selfclose = item
        attrs = list(attrs)
        for m in bykey.get(key, []):
            if m["w"] in ("missing", "missing_optional"):
                attrs = [(k, v) for k, v in attrs if k != m["a"]]
            elif m["w"] == "unknown":
                attrs.append(("bogus", "1"))
            elif m["w"] == "add":                        # a documented attribute with a documented value (ty carries the value)
                attrs = [(k, v) for k, v in attrs if k != m["a"]] + [(m["a"], m["ty"])]
            else:
                val = DOMAIN_VALUE[m["ty"]] if m["w"] == "domain" else BAD_VALUE[m["w"]]
                attrs = [(k, val if k == m["a"] else v) for k, v in attrs]
        lines.append("<%s %s%s>" % (tag, " ".join('%s="%s"' % kv for kv in attrs), " /" if selfclose else ""))
        at[key] = len(lines)
    return "\n".join(lines) + "\n", at
