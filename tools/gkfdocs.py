"""Materialise event sequences of spec/GkfModel.tla into gama-local input documents:
one event per line, every element with valid attributes, cov-mat consistent with the
number of observations that precede it in its cluster."""

HEADER = '<?xml version="1.0" ?>'
PTS = ["A", "B", "C", "D", "E"]

LEAF_ATTR = {
    "description": None,
    "parameters": 'sigma-apr="10" conf-pr="0.95" tol-abs="1000" sigma-act="apriori"',
    "direction": 'to="%(p)s" val="%(v)s" stdev="10"',
    "distance": 'to="%(p)s" val="100.%(k)d" stdev="5"',
    "angle": 'bs="%(p)s" fs="%(q)s" val="%(v)s" stdev="10"',
    "s-distance": 'to="%(p)s" val="100.%(k)d" stdev="5"',
    "z-angle": 'to="%(p)s" val="100.0%(k)d" stdev="10"',
    "azimuth": 'to="%(p)s" val="%(v)s" stdev="10"',
    "dh": 'from="A" to="%(p)s" val="1.%(k)d" stdev="2"',
    "vec": 'from="A" to="%(p)s" dx="1%(k)d" dy="2%(k)d" dz="3%(k)d"',
    "bogus": 'x="1"',
}
OPEN_ATTR = {
    "gama-local": 'xmlns="http://www.gnu.org/software/gama/gama-local"',
    "network": 'axes-xy="ne" angles="left-handed"',
    "points-observations": 'distance-stdev="5 3 1" direction-stdev="10" angle-stdev="10" zenith-angle-stdev="10" azimuth-stdev="10"',
    "obs": 'from="A"',
    "height-differences": "",
    "coordinates": "",
    "vectors": "",
}
PER_CHILD = {"obs": 1, "height-differences": 1, "coordinates": 2, "vectors": 3}


def materialise(events, open_tags=()):
    """returns (text, line_of_event[1..n]) ; the document is completed by closing what is open"""
    lines = [HEADER]
    ev_line = {}
    stack = []          # [tag, nobs]
    k = 0
    for i, ev in enumerate(events, 1):
        tag = ev["tag"]
        k += 1
        p = PTS[1 + k % 4]
        q = PTS[1 + (k + 1) % 4]
        sub = {"p": p, "q": q, "k": k % 10, "v": "%d.%d" % (10 * (k % 30), k % 10)}
        if ev["e"] == "close":
            lines.append("</%s>" % tag)
            stack.pop()
        else:
            ctx = stack[-1] if stack else None
            if tag == "cov-mat":
                dim = max(1, (ctx[1] if ctx else 1))
                att = 'dim="%d" band="0"' % dim
                body = " ".join(["4"] * dim)
                if ev["e"] == "leaf":
                    lines.append("<cov-mat %s>%s</cov-mat>" % (att, body))
                else:
                    lines.append("<cov-mat %s>%s" % (att, body))
            elif tag == "point":
                inside_coords = ctx is not None and ctx[0] == "coordinates"
                att = 'id="%s" x="%d" y="%d"' % (p, 100 + k, 200 + k) if inside_coords else 'id="%s" x="%d" y="%d" z="%d" adj="xyz"' % (p, 100 + k, 200 + k, 10 + k)
                lines.append("<point %s%s>" % (att, " /" if ev["e"] == "leaf" else ""))
            elif tag == "description":
                lines.append("<description>text %d</description>" % k if ev["e"] == "leaf" else "<description>text")
            elif tag in OPEN_ATTR:
                lines.append("<%s %s%s>" % (tag, OPEN_ATTR[tag], " /" if ev["e"] == "leaf" else ""))
            else:
                att = (LEAF_ATTR.get(tag) or "") % sub
                lines.append("<%s %s%s>" % (tag, att, " /" if ev["e"] == "leaf" else ""))
            if ctx is not None and tag != "cov-mat":
                ctx[1] += PER_CHILD.get(ctx[0], 0)
            if ev["e"] == "open":
                stack.append([tag, 0])
        ev_line[i] = len(lines)
    while stack:
        lines.append("</%s>" % stack.pop()[0])
    return "\n".join(lines) + "\n", ev_line
