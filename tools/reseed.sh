#!/bin/sh
# reseed.sh: applies every kept seeded change to /repo in turn, runs the quick check(s) that are recorded to catch it and reports
# whether it is still reported; /repo is restored after each. Evidence files written meanwhile describe seeded trees: re-run the
# checks on the unchanged tree afterwards.
cd /verif
for d in ${RESEED_LIST:-/verif/seeded/*/}; do
  id=$(basename $d)
  prop=$(python3 -c "import json;print(json.load(open('$d/meta.json'))['property'])")
  checks=$prop
  case $id in
    C07-direction-rhs-fmod) checks="C06";;
    C08-icgs-minx-not-cleared) checks="C04";;
  esac
  if ! git -C /repo apply --check $d/patch.diff 2>/dev/null; then echo "RESEED $id : patch no longer applies"; continue; fi
  git -C /repo apply $d/patch.diff
  res=""
  for c in $checks; do
    timeout 3000 bin/check $c > /verif/out/reseed-$id.log 2>&1; rc=$?
    res="$res $c=rc$rc"
  done
  git -C /repo checkout -- .
  echo "RESEED $id :$res"
done
