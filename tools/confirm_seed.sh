#!/bin/sh
# confirm_seed.sh <worktree>: confirms a seeded change delivered in <worktree>/demo:
#  with patch: builds, existing tests pass (failures must vanish on --rerun-failed, deformation diff tests ignored), demo fails;
#  without patch: demo passes.
wt=$1
cd "$wt" || exit 2
git checkout -q -- lib src 2>/dev/null
git apply demo/patch.diff || { echo "CONFIRM: patch does not apply"; exit 2; }
cmake -G Ninja -B _build >/dev/null 2>&1; cmake --build _build 2>&1 | tail -1
ctest --test-dir _build -j8 --timeout 900 >/dev/null 2>&1
ctest --test-dir _build --rerun-failed --timeout 900 2>&1 | grep -E "tests passed|Failed|aborted" | grep -v deformation_data_1_2_diff | tail -3
sh demo/BUILD.txt >/dev/null 2>&1
if [ -x demo/demo ]; then demo/demo >/tmp/confirm_with.$$ 2>&1; w=$?; else sh demo/run.sh >/tmp/confirm_with.$$ 2>&1; w=$?; fi
git apply -R demo/patch.diff
cmake --build _build 2>&1 | tail -1
sh demo/BUILD.txt >/dev/null 2>&1
if [ -x demo/demo ]; then demo/demo >/tmp/confirm_without.$$ 2>&1; o=$?; else sh demo/run.sh >/tmp/confirm_without.$$ 2>&1; o=$?; fi
git apply demo/patch.diff
echo "CONFIRM: demo exit with change=$w, without change=$o"
tail -2 /tmp/confirm_with.$$; tail -1 /tmp/confirm_without.$$; rm -f /tmp/confirm_with.$$ /tmp/confirm_without.$$
