#!/usr/bin/env python3
"""Survey used to transcribe the deviation table Lenient of spec/GkfAttrs.tla: runs gama-local (ASan build) on the base document
with every single attribute corruption and prints what happens. Not part of any check."""
import sys, subprocess, os, re, json
sys.path.insert(0, os.path.dirname(os.path.abspath(__file__)))
import gkfdocs, vlib
NUM = {"num", "posnum", "prob", "int", "nat", "ang", "nums"}
TYPES = {"axes-xy": "enum", "angles": "enum", "epoch": "num", "sigma-apr": "posnum", "conf-pr": "prob", "tol-abs": "posnum", "sigma-act": "enum", "algorithm": "enum",
         "angular": "enum", "latitude": "num", "cov-band": "int", "distance-stdev": "nums", "direction-stdev": "posnum", "angle-stdev": "posnum",
         "zenith-angle-stdev": "posnum", "azimuth-stdev": "posnum", "id": "id", "x": "num", "y": "num", "z": "num", "adj": "enum", "fix": "enum", "from": "id", "to": "id",
         "bs": "id", "fs": "id", "orientation": "num", "from_dh": "num", "to_dh": "num", "bs_dh": "num", "fs_dh": "num", "val": "num", "stdev": "posnum", "extern": "str",
         "dist": "posnum", "dx": "num", "dy": "num", "dz": "num", "dim": "nat", "band": "nat"}
REQ = {"id", "to", "val", "bs", "fs", "dx", "dy", "dz", "dim", "band"}
vlib.build("asan", ["gama-local"])
exe = vlib.binpath("asan", "gama-local")
env = dict(os.environ); env.update(vlib.ASAN_ENV)
os.makedirs("/verif/out/survey", exist_ok=True)
for key, item in gkfdocs.ATTR_BASE:
    if key is None:
        continue
    tag, attrs, _ = item
    ms = [{"e": key, "a": "bogus", "ty": "str", "w": "unknown"}]
    for a, _v in attrs:
        ty = "ang" if (a == "val" and key in ("direction", "angle", "zangle", "azimuth")) else TYPES[a]
        req = a in REQ or (a == "from" and key in ("dh", "vec"))
        ws = ["missing" if req else "missing_optional"]
        if ty in NUM: ws += ["badnum", "text", "empty"]
        if ty == "enum": ws += ["badenum", "empty"]
        if ty == "id" and req: ws += ["empty"]
        if ty in ("posnum", "prob", "nat"): ws += ["domain"]
        ms += [{"e": key, "a": a, "ty": ty, "w": w} for w in ws]
    for m in ms:
        t, at = gkfdocs.attr_doc([m])
        open("/verif/out/survey/d.gkf", "w").write(t)
        if os.path.exists("/verif/out/survey/d.xml"): os.remove("/verif/out/survey/d.xml")
        p = subprocess.run([exe, "/verif/out/survey/d.gkf", "--xml", "/verif/out/survey/d.xml"], stdout=subprocess.PIPE, stderr=subprocess.STDOUT, env=env, timeout=60)
        out = p.stdout.decode("utf-8", "replace")
        x = open("/verif/out/survey/d.xml").read() if os.path.exists("/verif/out/survey/d.xml") else ""
        if "runtime error" in out or "AddressSanitizer" in out:
            r = "SANITIZER " + re.search(r"(runtime error:[^\n]*|AddressSanitizer: [^\n]*)", out).group(1)[:100]
        elif "<lineNumber>" in x:
            ln = int(re.search(r"<lineNumber>(-?\d+)", x).group(1))
            r = "refused-here" if ln == at[key] else "refused-at-line %d (element on %d)" % (ln, at[key])
        elif "<error" in x:
            r = "error-without-line"
        elif "<adjusted>" in x:
            r = "ADJUSTED"
        else:
            r = "other rc=%d" % p.returncode
        print(json.dumps([key, m["a"], m["w"], r]))
