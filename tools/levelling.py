"""Levelling family: the LsqCases problems that are representable as 1-D networks are run
through gama-local itself (the LocalNetwork entry point) with all four algorithms; the XML
result is checked against the exact certificate from TLC."""
import math

import gl
import lsq

ALGS = ["envelope", "cholesky", "gso", "svd"]
M0 = 2.0


def dec4(v):
    """integer tenths of a millimetre -> decimal metres (exact string)"""
    s = "-" if v < 0 else ""
    v = abs(v)
    return "%s%d.%04d" % (s, v // 10000, v % 10000)


def survey_of(c, lev, sigma_act="apriori", m0=M0):
    pts = []
    used = set()
    for o in lev["obs"]:
        used.add(o["from"])
        used.add(o["to"])
    if "F" in used:
        pts.append({"id": "F", "z": dec4(lev["fixed"]["z"]), "fix": "z"})
    for p in lev["points"]:
        pts.append({"id": p["id"], "z": dec4(p["z"]), "adj": "Z" if p["con"] else "z"})
    clusters = []
    k = 0
    for b in c["blocks"]:
        obs = [{"from": o["from"], "to": o["to"], "val": dec4(o["val"])} for o in lev["obs"][k:k + b["dim"]]]
        k += b["dim"]
        el = []
        for i in range(b["dim"]):
            for j in range(i, min(b["dim"], i + b["band"] + 1)):
                el.append(b["C"][i][j])
        clusters.append({"type": "hdiffs", "obs": obs, "cov": {"dim": b["dim"], "band": b["band"], "el": el}})
    return {"desc": "levelling", "params": {"sigma-apr": m0, "conf-pr": 0.95, "tol-abs": 1000, "sigma-act": sigma_act},
            "points": pts, "clusters": clusters}


def _chol_solve(C, v):
    d = len(C)
    L = [[0.0] * d for _ in range(d)]
    for i in range(d):
        for j in range(i + 1):
            s = C[i][j] - sum(L[i][k] * L[j][k] for k in range(j))
            L[i][j] = math.sqrt(s) if i == j else s / L[j][j]
    t = [0.0] * d
    for i in range(d):
        t[i] = (v[i] - sum(L[i][k] * t[k] for k in range(i))) / L[i][i]
    y = [0.0] * d
    for i in range(d - 1, -1, -1):
        y[i] = (t[i] - sum(L[k][i] * y[k] for k in range(i + 1, d))) / L[i][i]
    return y


def applyP(c, v):
    """P v with P = blockdiag(adj(C)/det C); wide band blocks (det = 0: no adjugate from TLC) through a dense Cholesky solve"""
    y = [0.0] * len(v)
    o = 0
    for b in c["blocks"]:
        d = b["dim"]
        if b["det"] == 0:
            y[o:o + d] = _chol_solve(b["C"], v[o:o + d])
        else:
            for i in range(d):
                y[o + i] = sum(b["W"][i][j] * v[o + j] for j in range(d)) / b["det"]
        o += d
    return y


def close(a, b, tol, scale=1.0):
    return abs(a - b) <= tol * max(1.0, abs(scale))


def verify(ctx, cid, c, lev, alg, res, report):
    """report(prop, check, text)"""
    n, m, d = c["n"], c["m"], c["n"] - c["rank"]
    z0 = {p["id"]: p["z"] / 10000.0 for p in lev["points"]}
    adj = {}
    for p in res["adjusted"]:
        adj[p["id"]] = p.get("Z", p.get("z"))
    ids = [p["id"] for p in lev["points"]]
    if any(i not in adj for i in ids):
        report("C01", "points", "adjusted points missing: %s" % [i for i in ids if i not in adj])
        return
    x = [(adj[i] - z0[i]) * 1000.0 for i in ids]
    xs = max([1.0] + [abs(t) for t in x])
    S = c["S"] if not c["all"] else list(range(1, n + 1))
    # C01
    if res["defect"] != d:
        report("C01", "defect", "defect %s expected %s" % (res["defect"], d))
    v = [sum(c["A"][i][j] * x[j] for j in range(n)) - c["b"][i] for i in range(m)]
    Pv = applyP(c, v)
    for j in range(n):
        s = sum(c["A"][i][j] * Pv[i] for i in range(m))
        if not close(s, 0, 1e-7, 10 * xs):
            report("C01", "normal", "A'Pv[%d] = %g" % (j + 1, s))
    for g in c["G"]:
        s = sum(g[i - 1] * x[i - 1] for i in S)
        if not close(s, 0, 1e-7, xs):
            report("C01", "minnorm", "G_S'x = %g (S=%s)" % (s, S))
    vPv = sum(a * b for a, b in zip(v, Pv)) * M0 * M0
    if not close(res["pvv"], vPv, 2e-6, vPv):
        report("C01", "sumsq", "sum-of-squares %r expected %r" % (res["pvv"], vPv))
    for k, o in enumerate(res["obs"]):
        if k < m and not close((o["adj"] - o["obs"]) * 1000.0, v[k], 1e-6, xs):
            report("C01", "resid", "residual of obs %d: %r expected %r" % (k + 1, (o["adj"] - o["obs"]) * 1000.0, v[k]))
    # C09 (subset that needs no generator of its own)
    if res["dof"] != m - n + d or res["equations"] != m or res["unknowns"] != n:
        report("C09", "dof", "dof %s eq %s unk %s expected %s %s %s" % (res["dof"], res["equations"], res["unknowns"], m - n + d, m, n))
    if res["dof"] > 0 and not close(res["aposteriori"], math.sqrt(max(vPv, 0) / res["dof"]), 2e-6, 1):
        report("C09", "aposteriori", "aposteriori %r expected %r" % (res["aposteriori"], math.sqrt(vPv / res["dof"])))
    # C03: cov-mat = m0^2 Q_gama with Q_gama = inv(A' (m0^2 inv(C)) A), i.e. cov-mat = inv(A' inv(C) A) =: Q
    # (sigma-act = apriori)
    order = gl.unknown_order(res)
    if [i for i, _ in order] != sorted(ids) and len(order) != n:
        report("C03", "order", "cov-mat order %s" % (order,))
        return
    pos = {pid: k for k, (pid, _) in enumerate(order)}
    cov = gl.cov_full(res)
    Q = [[0.0] * n for _ in range(n)]
    for a in range(n):
        for b2 in range(n):
            i, j = pos[ids[a]] + 1, pos[ids[b2]] + 1
            Q[a][b2] = cov[(min(i, j), max(i, j))]
    N = [[0.0] * n for _ in range(n)]
    for j in range(n):
        Pc = applyP(c, [c["A"][i][j] for i in range(m)])
        for k in range(n):
            N[k][j] = sum(c["A"][i][k] * Pc[i] for i in range(m))
    ns = max([1.0] + [abs(t) for r in N for t in r])
    qs = max([1.0] + [abs(t) for r in Q for t in r])

    def mul(X, Y):
        return [[sum(X[i][k] * Y[k][j] for k in range(n)) for j in range(n)] for i in range(n)]
    NQ = mul(N, Q)
    NQN = mul(NQ, N)
    QNQ = mul(Q, NQ)
    for i in range(n):
        for j in range(n):
            if not close(NQN[i][j], N[i][j], 5e-6, ns * ns * qs):
                report("C03", "NQN", "(NQN)[%d][%d] = %r, N = %r" % (i + 1, j + 1, NQN[i][j], N[i][j]))
            if not close(QNQ[i][j], Q[i][j], 5e-6, qs * qs * ns):
                report("C03", "QNQ", "(QNQ)[%d][%d] = %r, Q = %r" % (i + 1, j + 1, QNQ[i][j], Q[i][j]))
    for g in c["G"]:
        for j in range(n):
            s = sum(g[i - 1] * Q[i - 1][j] for i in S)
            if not close(s, 0, 5e-6, qs):
                report("C03", "regularisation", "G_S'Q[:,%d] = %g" % (j + 1, s))
    # stdev of adjusted observations = sqrt(a Q a')
    blk_of = []
    for b in c["blocks"]:
        corr = any(b["C"][i][j] != 0 for i in range(b["dim"]) for j in range(b["dim"]) if i != j)
        blk_of += [corr] * b["dim"]
    for k, o in enumerate(res["obs"]):
        if k < m:
            a = c["A"][k]
            q = sum(a[i] * Q[i][j] * a[j] for i in range(n) for j in range(n))
            if not close(o["stdev"], math.sqrt(max(q, 0.0)), 5e-6, 1):
                report("C03", "obs_stdev_correlated_cluster" if blk_of[k] else "obs_stdev", "stdev of adjusted obs %d: %r expected %r" % (k + 1, o["stdev"], math.sqrt(max(q, 0))))


def check(ctx, want, cases=None, levs=None, max_networks=None, alias=None):
    if cases is None:
        r = lsq.gen_cases(ctx, "_genlev_%s.cfg" % ctx.pid, lsq.tier_consts(ctx))
        cases, levs = r.cases, r.lev
    sel = [(k, c, l) for k, (c, l) in enumerate(zip(cases, levs)) if l]
    if max_networks is None:
        max_networks = 400 if ctx.quick else 6000
    # deterministic thinning that keeps singular and correlated networks
    sel.sort(key=lambda t: (-(t[1]["n"] - t[1]["rank"]), -max(b["band"] for b in t[1]["blocks"]), (t[0] * 7919 + ctx.seed) % 10007))
    sel = sel[:max_networks]
    jobs, meta = [], []
    for k, c, l in sel:
        text = gl.write_gkf(survey_of(c, l))
        for alg in ALGS:
            jobs.append({"gkf": text, "args": ["--algorithm", alg], "want": ["xml"]})
            meta.append((lsq.case_id(c, k), c, l, alg, text))
    runs = gl.run_many(ctx, jobs)
    nontrivial = 0
    stats = {"adjusted": 0, "refused": 0}
    bycase = {}
    for (cid, c, l, alg, text), run in zip(meta, runs):
        cls = gl.classify(run)
        bycase.setdefault(cid, []).append((alg, cls, run))

        def report(prop, chk, msg, cid=cid, c=c, alg=alg, text=text):
            if alias and prop in alias:
                prop = alias[prop]
                if prop == ctx.pid:
                    feat = "singular" if c["rank"] < c["n"] else "regular"
                    ctx.violation("levelling|%s|%s|%s" % (chk, alg, feat), "levelling network %s, --algorithm %s: %s" % (cid, alg, msg),
                                  replay={"gkf": text, "algorithm": alg, "case": c})
                return
            if prop in want and prop == ctx.pid:
                feat = "singular" if c["rank"] < c["n"] else "regular"
                ctx.violation("levelling|%s|%s|%s" % (chk, alg, feat), "levelling network %s, --algorithm %s: %s" % (cid, alg, msg),
                              replay={"gkf": text, "algorithm": alg, "case": c})
        if cls in ("crash", "sanitizer", "hang"):
            report(ctx.pid, "crash", "gama-local %s rc=%s\n%s" % (cls, run.rc, run.out[-800:]))
            continue
        if c["adm"]:
            if cls != "adjusted":
                report("C01", "outcome", "admissible network not adjusted (%s):\n%s" % (cls, run.out[-600:]))
                continue
            stats["adjusted"] += 1
            verify(ctx, cid, c, l, alg, run.res, report)
        else:
            if cls == "adjusted":
                report("C20", "refused", "constrained heights do not resolve the defect but an adjustment was printed")
            else:
                stats["refused"] += 1
    for cid, lst in bycase.items():
        c = lst[0][2]
        classes = set(x[1] for x in lst)
        if len(classes) > 1 and ctx.pid in ("C02", "C20") and ctx.pid in want:
            ctx.violation("levelling|outcome-differs", "levelling network %s: outcome differs between algorithms: %s" % (cid, [(a, k) for a, k, _ in lst]))
        if "C02" in want and ctx.pid == "C02" and classes == {"adjusted"}:
            base = lst[0][2].res
            for alg, _, run in lst[1:]:
                res = run.res
                bad = []
                if res["defect"] != base["defect"] or res["dof"] != base["dof"]:
                    bad.append("defect/dof")
                if not close(res["pvv"], base["pvv"], 2e-6, base["pvv"]):
                    bad.append("pvv")
                for p, q in zip(res["adjusted"], base["adjusted"]):
                    for kk in p:
                        if kk != "id" and not close(p[kk], q.get(kk, float("nan")), 1e-9, 1):
                            bad.append("adjusted %s" % p["id"])
                for a, b in zip(res["cov"], base["cov"]):
                    if not close(a, b, 2e-6, max(abs(x) for x in base["cov"])):
                        bad.append("cov")
                        break
                for a, b in zip(res["obs"], base["obs"]):
                    if not close(a["adj"], b["adj"], 1e-9, 1) or not close(a["stdev"], b["stdev"], 2e-6, 1):
                        bad.append("obs")
                        break
                if bad:
                    ctx.violation("levelling|algorithms-differ|%s" % alg, "levelling network %s: %s differs from %s in %s" % (cid, alg, lst[0][0], bad))
    for k, c, l in sel:
        if c["adm"] and (c["rank"] < c["n"] or any(b["band"] > 0 for b in c["blocks"])):
            nontrivial += 1
    if sel:
        k, c, l = sel[0]
        ctx.sample({"levelling_gkf": gl.write_gkf(survey_of(c, l)), "certificate": {"rank": c["rank"], "G": c["G"], "S": c["S"]}})
    return {"networks": len(sel), "runs": len(jobs), "nontrivial": nontrivial, "outcomes": stats}
