"""gama-local glue: abstract survey (as emitted by the TLA+ generators) -> .gkf text,
process runner (parallel), adjustment XML -> projected result (the `result` variable of
SurveySession.tla)."""
import concurrent.futures
import math
import os
import re
import subprocess
import tempfile
import xml.etree.ElementTree as ET
from xml.sax.saxutils import escape, quoteattr

import vlib

NS = "{http://www.gnu.org/software/gama/gama-local-adjustment}"


def fmt(v):
    if isinstance(v, str):
        return v
    if isinstance(v, int):
        return str(v)
    return repr(float(v))


def attrs(d, keys):
    out = []
    for k in keys:
        if k in d and d[k] is not None:
            out.append("%s=%s" % (k, quoteattr(fmt(d[k]))))
    return " ".join(out)


OBS_ATTR = ["from", "to", "bs", "fs", "val", "stdev", "from_dh", "to_dh", "bs_dh", "fs_dh", "dist", "extern"]


def covmat(c):
    if not c:
        return ""
    return '<cov-mat dim="%d" band="%d">\n%s\n</cov-mat>\n' % (c["dim"], c["band"], " ".join(fmt(e) for e in c["el"]))


def write_gkf(s):
    """survey dict -> gkf text. Keys: desc, net (attrs of <network>), params, po (attrs of
    <points-observations>), points [...], clusters [...]"""
    o = ['<?xml version="1.0" ?>', '<gama-local xmlns="http://www.gnu.org/software/gama/gama-local">']
    o.append("<network %s>" % attrs(s.get("net", {}), ["axes-xy", "angles", "epoch"]))
    if s.get("desc") is not None:
        o.append("<description>%s</description>" % escape(s["desc"]))
    if s.get("params") is not None:
        o.append("<parameters %s />" % attrs(s["params"], ["sigma-apr", "conf-pr", "tol-abs", "sigma-act", "algorithm", "language", "encoding",
                                                            "angular", "angles", "latitude", "ellipsoid", "cov-band"]))
    o.append("<points-observations %s>" % attrs(s.get("po", {}), ["distance-stdev", "direction-stdev", "angle-stdev", "zenith-angle-stdev", "azimuth-stdev"]))
    for p in s.get("points", []):
        o.append("<point %s />" % attrs(p, ["id", "x", "y", "z", "fix", "adj"]))
    for c in s.get("clusters", []):
        t = c["type"]
        if t == "obs":
            o.append("<obs %s>" % attrs(c, ["from", "orientation", "from_dh"]))
            for ob in c["obs"]:
                o.append("  <%s %s />" % (ob["t"], attrs(ob, OBS_ATTR)))
            o.append(covmat(c.get("cov")) + "</obs>")
        elif t == "hdiffs":
            o.append("<height-differences>")
            for ob in c["obs"]:
                o.append("  <dh %s />" % attrs(ob, OBS_ATTR))
            o.append(covmat(c.get("cov")) + "</height-differences>")
        elif t == "coords":
            o.append("<coordinates %s>" % attrs(c, ["extern"]))
            for p in c["points"]:
                o.append("  <point %s />" % attrs(p, ["id", "x", "y", "z"]))
            o.append(covmat(c.get("cov")) + "</coordinates>")
        elif t == "vectors":
            o.append("<vectors>")
            for v in c["vecs"]:
                o.append("  <vec %s />" % attrs(v, ["from", "to", "dx", "dy", "dz", "from_dh", "to_dh", "extern"]))
            o.append(covmat(c.get("cov")) + "</vectors>")
    o.append("</points-observations>")
    o.append("</network>")
    o.append("</gama-local>")
    return "\n".join(o) + "\n"


class Run:
    __slots__ = ("rc", "out", "xml", "text", "res", "xmlerr", "files", "timeout", "sanitizer")


def run_one(job):
    """job = dict(gkf=text, args=[...], kind='plain'|'asan', want=['xml','text',...], keep=dir or None)"""
    kind = job.get("kind", "plain")
    exe = vlib.binpath(kind, "gama-local")
    d = tempfile.mkdtemp(prefix="gl-", dir=job["tmp"])
    inp = os.path.join(d, "in.gkf")
    with open(inp, "w" if isinstance(job["gkf"], str) else "wb") as f:
        f.write(job["gkf"])
    cmd = [exe, inp]
    want = job.get("want", ["xml"])
    files = {}
    for w in want:
        files[w] = os.path.join(d, "out." + w)
        cmd += ["--" + w, files[w]]
    cmd += job.get("args", [])
    env = dict(os.environ)
    if kind == "asan":
        env.update(vlib.ASAN_ENV)
    r = Run()
    r.timeout = False
    try:
        p = subprocess.run(cmd, stdout=subprocess.PIPE, stderr=subprocess.STDOUT, timeout=job.get("timeout", 60), env=env, cwd=d)
        r.rc, r.out = p.returncode, p.stdout.decode("utf-8", "replace")
    except subprocess.TimeoutExpired as ex:
        r.rc, r.out, r.timeout = -9, (ex.stdout or b"").decode("utf-8", "replace"), True
    r.sanitizer = ("ERROR: AddressSanitizer" in r.out) or ("runtime error:" in r.out) or r.rc in (98, 99)
    r.xml = r.text = r.res = None
    r.xmlerr = None
    r.files = {}
    for w, pth in files.items():
        if os.path.exists(pth):
            with open(pth, "rb") as f:
                data = f.read()
            r.files[w] = data
    if "xml" in r.files:
        r.xml = r.files["xml"].decode("utf-8", "replace")
        try:
            r.res = parse_adjustment(r.xml)
        except ET.ParseError as ex:
            r.xmlerr = str(ex)
    if "text" in r.files:
        r.text = r.files["text"].decode("utf-8", "replace")
    if not job.get("keep"):
        for f in os.listdir(d):
            os.remove(os.path.join(d, f))
        os.rmdir(d)
    return r


_built = set()


def run_many(ctx, jobs, workers=None):
    # every check rebuilds gama-local from /repo's current working tree before using it
    for kind in set(j.get("kind", "plain") for j in jobs):
        if kind not in _built:
            vlib.build(kind, ["gama-local"])
            _built.add(kind)
    tmp = os.path.join(ctx.outdir, "tmp")
    os.makedirs(tmp, exist_ok=True)
    for j in jobs:
        j["tmp"] = tmp
    with concurrent.futures.ThreadPoolExecutor(max_workers=workers or vlib.NCPU) as ex:
        return list(ex.map(run_one, jobs))


def _t(e, name, conv=str, default=None):
    x = e.find(NS + name)
    if x is None or x.text is None:
        return default
    return conv(x.text.strip())


def parse_adjustment(text):
    """Projection of the adjustment XML (what SurveySession.result holds)."""
    root = ET.fromstring(text)
    res = {"outcome": "adjusted"}
    err = root.find(NS + "error")
    if err is not None:
        res["outcome"] = "error"
        res["error"] = [(d.text or "") for d in err.iter(NS + "description")]
        res["error_category"] = err.get("category")
        return res
    res["description"] = _t(root, "description", str, "")
    gp = root.find(NS + "network-general-parameters")
    res["general"] = dict(gp.attrib) if gp is not None else {}
    summ = root.find(NS + "network-processing-summary")
    cs = summ.find(NS + "coordinates-summary")
    res["coord_summary"] = {}
    for k in ("adjusted", "constrained", "fixed"):
        e = cs.find(NS + "coordinates-summary-" + k)
        res["coord_summary"][k] = [int(e.find(NS + c).text) for c in ("count-xyz", "count-xy", "count-z")]
    os_ = summ.find(NS + "observations-summary")
    res["obs_summary"] = {c.tag.replace(NS, ""): int(c.text) for c in os_}
    pe = summ.find(NS + "project-equations")
    res["equations"] = _t(pe, "equations", int)
    res["unknowns"] = _t(pe, "unknowns", int)
    res["dof"] = _t(pe, "degrees-of-freedom", int)
    res["defect"] = _t(pe, "defect", int)
    res["pvv"] = _t(pe, "sum-of-squares", float)
    res["connected"] = pe.find(NS + "connected-network") is not None
    res["disconnected"] = pe.find(NS + "disconnected-network") is not None
    sd = summ.find(NS + "standard-deviation")
    res["apriori"] = _t(sd, "apriori", float)
    res["aposteriori"] = _t(sd, "aposteriori", float)
    res["used"] = _t(sd, "used")
    res["probability"] = _t(sd, "probability", float)
    res["ratio"] = _t(sd, "ratio", float)
    res["lower"] = _t(sd, "lower", float)
    res["upper"] = _t(sd, "upper", float)
    res["passed"] = sd.find(NS + "passed") is not None
    res["failed"] = sd.find(NS + "failed") is not None
    res["conf_scale"] = _t(sd, "confidence-scale", float)
    co = root.find(NS + "coordinates")

    def pts(tag):
        out = []
        sec = co.find(NS + tag)
        if sec is None:
            return out
        for p in sec.findall(NS + "point"):
            d = {}
            for c in p:
                k = c.tag.replace(NS, "")
                d[k] = c.text.strip() if k == "id" else float(c.text)
            out.append(d)
        return out
    res["fixed"] = pts("fixed")
    res["approximate"] = pts("approximate")
    res["adjusted"] = pts("adjusted")
    res["ellipses"] = []
    se = co.find(NS + "std-error-ellipses")
    if se is not None:
        for e in se.findall(NS + "ellipse"):
            res["ellipses"].append({"id": _t(e, "id"), "major": _t(e, "major", float), "minor": _t(e, "minor", float), "alpha": _t(e, "alpha", float)})
    res["orientations"] = []
    os2 = co.find(NS + "orientation-shifts")
    if os2 is not None:
        for e in os2.findall(NS + "orientation"):
            res["orientations"].append({"id": _t(e, "id"), "approx": _t(e, "approx", float), "adj": _t(e, "adj", float)})
    cm = co.find(NS + "cov-mat")
    res["cov_dim"] = _t(cm, "dim", int)
    res["cov_band"] = _t(cm, "band", int)
    res["cov"] = [float(f.text) for f in cm.findall(NS + "flt")]
    oi = co.find(NS + "original-index")
    res["orig_index"] = [int(i.text) for i in oi.findall(NS + "ind")] if oi is not None else []
    res["obs"] = []
    ob = root.find(NS + "observations")
    if ob is not None:
        for e in ob:
            d = {"type": e.tag.replace(NS, "")}
            for c in e:
                k = c.tag.replace(NS, "")
                t = (c.text or "").strip()
                if k in ("from", "to", "left", "right", "id", "extern"):
                    d[k] = t
                else:
                    try:
                        d[k] = float(t)
                    except ValueError:
                        d[k] = t
            res["obs"].append(d)
    return res


def cov_full(res):
    """Band storage of the XML -> dict (i,j)->value for |i-j|<=band (1-based, i<=j)."""
    n, b = res["cov_dim"], res["cov_band"]
    it = iter(res["cov"])
    m = {}
    for i in range(1, n + 1):
        for j in range(i, min(n, i + b) + 1):
            m[(i, j)] = next(it)
    return m


def unknown_order(res):
    """Sequence of (id, coordinate) in the order of the rows of <cov-mat>."""
    out = []
    for p in res["adjusted"]:
        for k in ("x", "X", "y", "Y", "z", "Z"):
            if k in p:
                out.append((p["id"], k))
    for o in res["orientations"]:
        out.append((o["id"], "ori"))
    return out


def classify(run):
    """Terminal outcome classes of a gama-local process (GamaLocalRun.tla)."""
    if run.timeout:
        return "hang"
    if run.sanitizer:
        return "sanitizer"
    if run.rc < 0 or run.rc > 1 and run.rc not in (98, 99):
        return "crash"
    if run.res is not None and run.res["outcome"] == "adjusted":
        return "adjusted"
    if run.res is not None and run.res["outcome"] == "error":
        return "error-xml"
    if run.rc == 0:
        return "not-adjusted"       # network cannot be adjusted / nothing to do
    return "error"
