"""Runs sessions emitted by SurveySession.tla: base network, then each edit; gama-local after
every step; law of each edit checked on the physical projections."""
import json, os
import vlib, gl, session

ALL_TEMPLATES = '{"tri2d", "trav2d", "dist2d", "polar3d", "vec3d", "lev1d", "free2d", "fstat3d", "fstat2d", "freevec3d", "freelev1d", "vecmix3d"}'


def generate(ctx, name, consts, timeout=1500, simulate=None):
    cfg = os.path.join(vlib.SPEC, "_%s.cfg" % name)
    with open(cfg, "w") as f:
        f.write("SPECIFICATION Spec\nCONSTANTS\n" + "".join("  %s = %s\n" % kv for kv in consts.items()) + "INVARIANT Emit\nCHECK_DEADLOCK FALSE\n")
    r = vlib.tlc("SurveySession", "_%s.cfg" % name, timeout=timeout, simulate=simulate, depth=(consts["MaxEdits"] + 2) if simulate else None,
                 seed=ctx.seed if simulate else None, workers=1 if simulate else None)
    os.remove(cfg)
    if r.outcome != "ok":
        raise vlib.ModelFailure("SurveySession: %s\n%s" % (r.outcome, r.out[-2500:]))
    cases = sorted(r.cases, key=lambda c: json.dumps(c, sort_keys=True))
    # simulation may emit duplicates
    out, seen = [], set()
    for c in cases:
        k = json.dumps(c, sort_keys=True)
        if k not in seen:
            seen.add(k)
            out.append(c)
    return r, out


def base_survey(net):
    sv = session.Survey(net)
    if net["t"] in ("free2d", "freevec3d", "freelev1d"):
        for p in sv.pts:
            p["con"] = True
    return sv


def run_sessions(ctx, sessions, truth=True, laws=True, algs=None, kind="plain", tolc=3e-6, sigprefix="", each=None):
    """returns stats; violations are reported through ctx"""
    vlib.build(kind, ["gama-local"])
    steps = []          # (session index, step index, survey, edit or None)
    for si, s in enumerate(sessions):
        sv = base_survey(s["net"])
        steps.append((si, 0, sv, None, None))
        for k, ed in enumerate(s["edits"], 1):
            sv2 = session.apply_edit(sv, ed["e"])
            steps.append((si, k, sv2, ed["e"], ed["law"]))
            sv = sv2
    jobs = []
    for (si, k, sv, e, law) in steps:
        jobs.append({"gkf": sv.gkf(), "args": sv.cli(), "want": ["xml"], "kind": kind})
    runs = gl.run_many(ctx, jobs)
    proj = {}
    st = {"runs": len(jobs), "adjusted": 0, "law_checks": 0, "truth_checks": 0}
    for (si, k, sv, e, law), run, job in zip(steps, runs, jobs):
        cls = gl.classify(run)
        net = sessions[si]["net"]
        tag = "%s|%s" % (net["t"], e["k"] if e else "base")
        if cls in ("crash", "sanitizer", "hang"):
            ctx.violation(sigprefix + "run|%s|%s" % (cls, tag), "gama-local %s (rc=%s) on session %d step %d\n%s" % (cls, run.rc, si, k, run.out[-1200:]),
                          replay={"gkf": job["gkf"], "args": job["args"]})
            proj[(si, k)] = None
            continue
        if run.res is None:
            proj[(si, k)] = {"outcome": cls, "text": run.out[-600:]}
        else:
            proj[(si, k)] = session.project(run.res, sv)
            if run.res["outcome"] == "adjusted":
                st["adjusted"] += 1
        P = proj[(si, k)]

        def report(chk, msg, tag=tag, job=job, si=si, k=k, e=e):
            ctx.violation(sigprefix + "%s|%s" % (chk, tag), "session %d step %d (%s): %s" % (si, k, json.dumps(e) if e else "base network", msg),
                          replay={"gkf": job["gkf"], "args": job["args"], "session": sessions[si]})
        if each is not None and run.res is not None:
            each(run.res, sv, report)
        if truth and net["noise"] == 0 and P is not None and (e is None or law["coords"] in ("same", "shift", "axes", "rename", "truth")):
            st["truth_checks"] += 1
            if P.get("outcome") != "adjusted":
                report("truth_outcome", "consistent network not adjusted (%s): %s" % (P.get("outcome"), P.get("text", "")))
            else:
                session.check_truth(P, sv, report)
        if laws and e is not None and proj.get((si, k - 1)) is not None and P is not None:
            A = proj[(si, k - 1)]
            svA = [x for x in steps if x[0] == si and x[1] == k - 1][0][2]
            if "pts" in A or "pts" in P or A.get("outcome") != P.get("outcome"):
                st["law_checks"] += 1
                if A.get("outcome") == "adjusted" and P.get("outcome") == "adjusted":
                    session.check_law(A, P, e, law, svA, sv, report, tolc=tolc)
                elif A.get("outcome") != P.get("outcome") and law["coords"] != "truth":
                    report("outcome", "outcome %s becomes %s" % (A.get("outcome"), P.get("outcome")))
    return st, proj, steps
