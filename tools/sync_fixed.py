#!/usr/bin/env python3
"""Rebuilds the 'fixed' entries of known-findings.json from the fix: commits of /repo."""
import json, subprocess
PROP = [("uninitialised minx_n", "C01"), ("delete instead of delete[]", "C19"), ("first pivot", "C01"), ("lindep(i) tested", "C20"),
        ("shared cache", "C04"), ("kept cached q_xx", "C04"), ("row pointers of V", "C04"), ("installed an empty matrix V", "C04"), ("min_subset_x accepted", "C20"),
        ("ignored ICGS::error", "C20"), ("dangling minx_i", "C04"), ("kept the old solution", "C04"), ("without <cov-mat>", "C11"),
        ("dim differs", "C10"), ("memcpy from a null", "C15"), ("TransVec * MatBase summed", "C15"), ("TransMat sums and the products", "C15"), ("empty <obs>", "C11"), ("hdiff::active", "C11"), ("graph without nodes", "C11"),
        ("200 gon off", "C06"), ("AcordHdiff marked", "C06"), ("station of the first observation", "C07"), ("too few constrained", "C20"), ("observed y coordinates", "C13"), ("fix: g3 ", "C19"), ("gama-g3 read x(0)", "C19"), ("refinement of approximate", "C06"), ("--export dropped the standard", "C13"), ("--export did not write the extern", "C13"), ("inside <coordinates> was erased", "C11"), ("overflows to infinity", "C11"), ("took the id of the previous point", "C11"), ("pvector::active", "C11"), ("conf-pr >= 1", "C11"), ("fs_dh attribute of an <angle>", "C13"), ("wrote the latitude in radians", "C13"), ("apriori_m_0(m) left", "C04"), ("changing the type of the reference standard deviation", "C04"), ("--export wrote point identifiers", "C13"), ("--export in degree mode wrote the covariance", "C13"), ("apostrophe", "C12"), ("Octave output wrote y", "C12"), ("60 in the seconds", "C18"), ("latitude() / longitude() could print 60", "C18"), ("lone sign", "C18"), ("polar axis", "C18"), ("written to the adjustment XML unescaped", "C12"), ("invisible to the levelling pass", "C06"), ("vectors pass of approximate coordinates", "C06"), ("from a zenith angle alone", "C06"), ("turned by the orientation of that set", "C06"), ("first computed without the azimuths", "C06"), ("first computed without the slope distances", "C06"), ("Adj::defect(), rtr(), q_xx() and q_bb() solve first", "C04"), ("DataParser", "C11")]
kf = json.load(open("/verif/known-findings.json"))
log = subprocess.run(["git", "-C", "/repo", "log", "--format=%h %s", "--grep", "^fix:"], stdout=subprocess.PIPE, universal_newlines=True).stdout.strip().split("\n")
kf["findings"] = [f for f in kf["findings"] if f["status"] != "fixed"]
for l in reversed(log):
    h, msg = l.split(" ", 1)
    p = [v for k, v in PROP if k in msg]
    prop = p[0] if p else "C01"
    kf["findings"].append({"property": prop, "status": "fixed", "commit": h, "what": msg[5:], "signature": "fixed: property=%s %s %s" % (prop, h, msg[5:])})
json.dump(kf, open("/verif/known-findings.json", "w"), indent=1)
print(len(log), "fix commits")
