"""Conformance harness of spec/SurveySession.tla: materialises the abstract survey into
gama-local input (observations computed from the true lattice coordinates by textbook
formulas = trusted base), applies the edits, projects results back into the physical
east-north-up frame and checks the law of every edit."""
import copy
import math
import random

import gl

G2R = math.pi / 200.0
AXV = {"n": (0.0, 1.0), "s": (0.0, -1.0), "e": (1.0, 0.0), "w": (-1.0, 0.0)}     # (E, N) components
STDEV = {"direction": 10.0, "distance": 5.0, "angle": 10.0, "s-distance": 5.0, "z-angle": 10.0, "azimuth": 15.0, "dh": 3.0}
ANGULAR = ("direction", "angle", "z-angle", "azimuth")


class Survey:
    def __init__(self, net):
        self.t = net["t"]
        self.dim = net["dim"]
        self.pts = [dict(id=p["id"], e=float(p["e"]), n=float(p["n"]), u=float(p["u"]), role=p["role"], con=False, approx="given", pert=(0.0, 0.0, 0.0))
                    for p in net["pts"]]
        self.obs = []
        for k, o in enumerate(net["obs"]):
            self.obs.append(dict(t=o["t"], fr=o["from"], to=o["to"], to2=o["to2"], k=k, fdh=0.0, tdh=0.0, swap=False, passive=False))
        self.axes = net["axes"]
        self.lh = net["lefthanded"]
        self.noise = net["noise"]
        stations = sorted(set(o["fr"] for o in self.obs if o["t"] == "direction"))
        self.orient = {s: (net["orient"] / 1e4 * (i + 1)) % 400.0 for i, s in enumerate(stations)}
        self.deg = False
        self.names = {p["id"]: p["id"] for p in self.pts}
        self.params = {"sigma-apr": 10.0, "conf-pr": 0.95, "tol-abs": 1000.0, "sigma-act": "apriori" if self.noise == 0 else "aposteriori"}
        self.args = []
        self.alg = None
        self.order_seed = 0
        self.shift = (0.0, 0.0, 0.0)
        self.dhs = False             # instrument / target heights on slope observations
        self.vec_cov_band = 1
        self.extra_desc = "session"
        self.allopt = net.get("allopt", [])
        self.feat = set()            # optional forms of the input language (edit InputFeatures)
        self.lonesets = []           # (station, target, readings): direction sets with a single target (edit LoneSet)

    # ---------------------------------------------------------------- geometry
    def pt(self, pid):
        for p in self.pts:
            if p["id"] == pid:
                return p
        raise KeyError(pid)

    def enu(self, pid):
        p = self.pt(pid)
        return (p["e"] + self.shift[0], p["n"] + self.shift[1], p["u"] + self.shift[2])

    def describe(self, enu):
        ax, ay = AXV[self.axes[0]], AXV[self.axes[1]]
        return (ax[0] * enu[0] + ax[1] * enu[1], ay[0] * enu[0] + ay[1] * enu[1], enu[2])

    def undescribe(self, x, y):
        ax, ay = AXV[self.axes[0]], AXV[self.axes[1]]
        # axes are orthonormal: (E,N) = x*ax + y*ay
        return (x * ax[0] + y * ay[0], x * ax[1] + y * ay[1])

    def bearing(self, a, b):
        """physical clockwise bearing from north in gon"""
        ea, na, _ = self.enu(a)
        eb, nb, _ = self.enu(b)
        return math.atan2(eb - ea, nb - na) / G2R % 400.0

    def sense(self, cw):
        """a clockwise angular value as read on the instrument (counterclockwise graduation negates it)"""
        return cw % 400.0 if self.lh else (400.0 - cw) % 400.0

    def noise_of(self, o):
        if self.noise == 0:
            return 0.0
        return float(((o["k"] + 1) * (self.noise + 2)) % 7 - 3)        # units: mm or cc

    def value(self, o):
        """observed value in m / gon computed from the truth; noise is part of the physical survey"""
        t, a, b = o["t"], o["fr"], o["to"]
        nz = self.noise_of(o) + o.get("blunder", 0.0)        # blunder in the units of the noise: mm or cc
        if t == "direction":
            return self.sense(self.bearing(a, b) - self.orient[a] + nz / 1e4)
        if t == "azimuth":
            return self.sense(self.bearing(a, b) + nz / 1e4)
        if t == "angle":
            return self.sense(self.bearing(a, o["to2"]) - self.bearing(a, b) + nz / 1e4)
        ea, na, ua = self.enu(a)
        eb, nb, ub = self.enu(b)
        d = math.hypot(eb - ea, nb - na)
        du = (ub + o["tdh"]) - (ua + o["fdh"])
        if t == "distance":
            return d + nz / 1e3
        if t == "s-distance":
            return math.sqrt(d * d + du * du) + nz / 1e3
        if t == "z-angle":
            return math.atan2(d, du) / G2R + nz / 1e4
        if t == "dh":
            return (ub - ua) + nz / 1e3
        raise ValueError(t)

    # ---------------------------------------------------------------- gkf
    def fmt_ang(self, g):
        if not self.deg:
            return "%.10f" % g
        d = g * 0.9
        sign = "-" if d < 0 else ""
        d = abs(d)
        dd = int(d)
        mm = int((d - dd) * 60)
        ss = ((d - dd) * 60 - mm) * 60
        if ss >= 59.9999999995:
            ss = 0.0
            mm += 1
        if mm >= 60:
            mm -= 60
            dd += 1
        return "%s%d-%02d-%013.10f" % (sign, dd, mm, ss)

    def sd(self, t):
        s = STDEV[t]
        if t in ANGULAR and self.deg:
            return s * 0.324
        return s

    def name(self, pid):
        return self.names[pid]

    def to_survey_dict(self):
        rnd = random.Random(self.order_seed) if self.order_seed else None
        pts = []
        for p in self.pts:
            d = {"id": self.name(p["id"])}
            x, y, z = self.describe(self.enu(p["id"]))
            px, py, pz = p["pert"]
            has_xy = self.dim >= 2
            has_z = self.dim in (1, 3)
            if p["role"] == "fix":
                if has_xy:
                    d["x"], d["y"] = "%.6f" % x, "%.6f" % y
                if has_z:
                    d["z"] = "%.6f" % z
                d["fix"] = {1: "z", 2: "xy", 3: "xyz"}[self.dim]
            elif p["role"] == "unkz":
                # horizontal position fixed, height unknown
                d["x"], d["y"] = "%.6f" % x, "%.6f" % y
                if p["approx"] == "given":
                    d["z"] = "%.6f" % (z + pz)
                d["fix"], d["adj"] = "xy", "z"
            else:
                if p["approx"] in ("given", "omit_z") and has_xy:
                    d["x"], d["y"] = "%.6f" % (x + px), "%.6f" % (y + py)
                if p["approx"] in ("given", "omit_xy") and has_z:
                    d["z"] = "%.6f" % (z + pz)
                a = {1: "z", 2: "xy", 3: "xyz"}[self.dim]
                if p["con"] is True:
                    a = a.upper()
                elif p["con"] == "z":
                    a = a.replace("z", "Z")
                elif p["con"] == "xy":
                    a = a.replace("xy", "XY")
                d["adj"] = a
            pts.append(d)
        clusters = []
        stations = []
        for o in self.obs:
            if o["t"] in ("direction", "distance", "angle", "s-distance", "z-angle", "azimuth") and o["fr"] not in stations:
                stations.append(o["fr"])
        for s in stations:
            ol = []
            for o in self.obs:
                if o["fr"] != s or o["t"] not in ("direction", "distance", "angle", "s-distance", "z-angle", "azimuth"):
                    continue
                v = self.value(o)
                e = {"t": o["t"]}
                if o["t"] == "angle":
                    e.update({"bs": self.name(o["to"]), "fs": self.name(o["to2"])})
                elif o["swap"]:
                    e.update({"from": self.name(o["to"]), "to": self.name(o["fr"])})
                else:
                    e["to"] = self.name(o["to"])
                e["val"] = self.fmt_ang(v) if o["t"] in ANGULAR else "%.8f" % v
                e["stdev"] = "%.6f" % (o.get("sd") or self.sd(o["t"]))
                if o["fdh"]:
                    e["from_dh"] = "%.4f" % o["fdh"]
                if o["tdh"]:
                    e["to_dh"] = "%.4f" % o["tdh"]
                if "angle_dh" in self.feat and o["t"] == "angle":
                    e["from_dh"], e["bs_dh"], e["fs_dh"] = "1.5100", "1.3200", "1.2300"
                if "dir_dh" in self.feat and o["t"] == "direction":
                    e["from_dh"], e["to_dh"] = "1.4500", "%.4f" % (1.2 + 0.1 * (len(ol) % 3))
                if "extern" in self.feat:
                    e["extern"] = "x%d" % len(ol)
                ol.append(e)
            if rnd:
                rnd.shuffle(ol)
            cl = {"type": "obs", "from": self.name(s), "obs": ol}
            if "obs_cov" in self.feat and len(ol) >= 2:
                # the standard deviations as a banded covariance matrix with small correlations between neighbours
                sds = [float(e_["stdev"]) for e_ in ol]
                el = []
                for i_ in range(len(ol)):
                    el.append("%.8f" % (sds[i_] ** 2))
                    if i_ + 1 < len(ol):
                        el.append("%.8f" % (0.1 * sds[i_] * sds[i_ + 1]))
                for e_ in ol:
                    del e_["stdev"]
                cl["cov"] = {"dim": len(ol), "band": 1, "el": el}
            clusters.append(cl)
        for (st, tg, cnt) in self.lonesets:
            # repeated readings of one target, spread by a few cc: had the set taken part, the spread would show in the sum of squares
            ol = [{"t": "direction", "to": self.name(tg), "val": self.fmt_ang(self.sense(self.bearing(st, tg) - 77.7731 + (i - (cnt - 1) / 2.0) * 8e-4)),
                   "stdev": "%.6f" % self.sd("direction")} for i in range(cnt)]
            clusters.append({"type": "obs", "from": self.name(st), "obs": ol})
        dhs = [o for o in self.obs if o["t"] == "dh"]
        if dhs:
            ol = [{"from": self.name(o["fr"]), "to": self.name(o["to"]), "val": "%.8f" % self.value(o), "stdev": "%.4f" % (o.get("sd") or STDEV["dh"])} for o in dhs]
            if "dh_dist" in self.feat or "dh_dist_only" in self.feat:
                for k_, e_ in enumerate(ol):
                    e_["dist"] = "%.4f" % (0.25 + 0.1 * k_)              # km
                    if "dh_dist_only" in self.feat:
                        del e_["stdev"]
            if "extern" in self.feat:
                for k_, e_ in enumerate(ol):
                    e_["extern"] = "dh-%d" % k_
            if rnd:
                rnd.shuffle(ol)
            clusters.append({"type": "hdiffs", "obs": ol})
        vecs = [o for o in self.obs if o["t"] == "vector"]
        if vecs:
            vl = []
            for o in vecs:
                ea, na, ua = self.enu(o["fr"])
                eb, nb, ub = self.enu(o["to"])
                nz = self.noise_of(o) / 1e3                       # noise is physical: (nz, -nz, 2nz) in east, north, up
                dx, dy, dz = self.describe((eb - ea + nz, nb - na - nz, ub - ua + 2 * nz))
                vl.append({"from": self.name(o["fr"]), "to": self.name(o["to"]), "dx": "%.8f" % dx, "dy": "%.8f" % dy, "dz": "%.8f" % dz})
            dim = 3 * len(vl)
            # physical covariance: 4 mm^2 for both horizontal components, 9 for the vertical one (invariant under re-description of the axes)
            el = []
            for i in range(dim):
                el.append("9" if i % 3 == 2 else "4")
            clusters.append({"type": "vectors", "vecs": vl, "cov": {"dim": dim, "band": 0, "el": el}})
        cos = [o for o in self.obs if o["t"] == "coords"]
        if cos:
            pl = []
            for o in cos:
                e0, n0, u0 = self.enu(o["fr"])
                nz = self.noise_of(o) / 1e3
                x, y, z = self.describe((e0 + nz, n0 - nz, u0 + nz))
                pl.append({"id": self.name(o["fr"]), "x": "%.8f" % x, "y": "%.8f" % y, "z": "%.8f" % z})
            dim = 3 * len(pl)
            el = ["9"] * dim
            clusters.append({"type": "coords", "points": pl, "cov": {"dim": dim, "band": 0, "el": el}})
        if "coords_split" in self.feat:
            unk = [p for p in self.pts if p["role"] == "unk"]
            if len(unk) >= 2 and self.dim == 3:
                a, b = unk[0], unk[1]
                xa, ya, _ = self.describe(self.enu(a["id"]))
                _, _, zb = self.describe(self.enu(b["id"]))
                nz = 0.001 * self.noise
                clusters.append({"type": "coords", "points": [{"id": self.name(a["id"]), "x": "%.8f" % (xa + nz), "y": "%.8f" % (ya - nz)},
                                                              {"id": self.name(b["id"]), "z": "%.8f" % (zb + nz)}],
                                 "cov": {"dim": 3, "band": 0, "el": ["9", "9", "9"]}})
        if self.t in ("vecmix3d", "freevec3d"):
            # these templates exist for the numbering of unknowns by vectors between two new points: vector clusters come first
            clusters.sort(key=lambda c: 0 if c["type"] == "vectors" else 1)
        if rnd:
            rnd.shuffle(pts)
            rnd.shuffle(clusters)
        par = dict(self.params)
        par["sigma-apr"] = "%.6f" % par["sigma-apr"]
        return {"desc": self.extra_desc, "net": {"axes-xy": self.axes, "angles": "left-handed" if self.lh else "right-handed"},
                "params": par, "points": pts, "clusters": clusters}

    def gkf(self):
        return gl.write_gkf(self.to_survey_dict())

    def cli(self):
        a = list(self.args)
        if self.alg:
            a += ["--algorithm", self.alg]
        return a


# -------------------------------------------------------------------- projection
def wrap200(a):
    a = (a + 200.0) % 400.0 - 200.0
    return a


def project(res, sv):
    """result XML projection -> physical frame, keyed by original ids"""
    inv = {v: k for k, v in sv.names.items()}
    P = {"outcome": res["outcome"]}
    if res["outcome"] != "adjusted":
        return P
    P["dof"], P["defect"], P["pvv"] = res["dof"], res["defect"], res["pvv"]
    P["equations"], P["unknowns"] = res["equations"], res["unknowns"]
    P["apriori"], P["aposteriori"], P["used"], P["conf_scale"], P["probability"] = res["apriori"], res["aposteriori"], res["used"], res["conf_scale"], res["probability"]
    P["pts"] = {}
    for p in res["adjusted"]:
        pid = inv.get(p["id"], p["id"])
        x = p.get("x", p.get("X"))
        y = p.get("y", p.get("Y"))
        z = p.get("z", p.get("Z"))
        d = {}
        if x is not None:
            e, n = sv.undescribe(x, y)
            d["e"], d["n"] = e - sv.shift[0], n - sv.shift[1]
        if z is not None:
            d["u"] = z - sv.shift[2]
        P["pts"][pid] = d
    P["ori"] = {}
    for o in res["orientations"]:
        v = o["adj"]
        P["ori"][inv.get(o["id"], o["id"])] = v
    # covariance in physical components
    order = gl.unknown_order(res)
    cov = gl.cov_full(res)
    idx = {}
    for k, (pid, c) in enumerate(order, 1):
        idx[(inv.get(pid, pid), c.lower())] = k
    P["cov_band"] = res["cov_band"]
    P["cov_dim"] = res["cov_dim"]
    ax, ay = AXV[sv.axes[0]], AXV[sv.axes[1]]

    def comp(pid, c):
        """physical component c in e,n,u as (index, sign) of the described unknown"""
        if c == "u":
            return idx.get((pid, "z")), 1.0
        if c == "e":
            return (idx.get((pid, "x")), ax[0]) if ax[0] != 0 else (idx.get((pid, "y")), ay[0])
        return (idx.get((pid, "x")), ax[1]) if ax[1] != 0 else (idx.get((pid, "y")), ay[1])
    pc = {}
    keys = [(pid, c) for pid in P["pts"] for c in ("e", "n", "u") if comp(pid, c)[0]]
    for a in keys:
        for b in keys:
            ia, sa = comp(*a)
            ib, sb = comp(*b)
            v = cov.get((min(ia, ib), max(ia, ib)))
            if v is not None:
                pc[(a, b)] = sa * sb * v
    for s in P["ori"]:
        k = idx.get((s, "ori"))
        if k and (k, k) in cov:
            pc[((s, "ori"), (s, "ori"))] = cov[(k, k)]
    P["cov"] = pc
    P["ell"] = {}
    for el in res["ellipses"]:
        pid = inv.get(el["id"], el["id"])
        # alpha: bearing of the major semi-axis in the described frame, from x towards y
        dx, dy = math.cos(el["alpha"]), math.sin(el["alpha"])
        e_, n_ = sv.undescribe(dx, dy)
        P["ell"][pid] = {"major": el["major"], "minor": el["minor"], "dir": (round(e_, 6), round(n_, 6))}
    P["obs"] = {}
    tmap = {"height-diff": "dh", "slope-distance": "s-distance", "zenith-angle": "z-angle"}
    for o in res["obs"]:
        t = tmap.get(o["type"], o["type"])
        fr = inv.get(o.get("from"), o.get("from"))
        to = inv.get(o.get("to"), o.get("to")) if "to" in o else None
        if t == "angle":
            key = (t, fr, inv.get(o["left"], o["left"]), inv.get(o["right"], o["right"]))
        elif t in ("distance",):
            key = (t,) + tuple(sorted((fr, to)))
        elif t.startswith("coordinate-"):
            key = (t, inv.get(o["id"], o["id"]), "")
        else:
            key = (t, fr, to)
        k2 = key
        n = 0
        while k2 in P["obs"]:
            n += 1
            k2 = key + (n,)
        sgn = 1.0
        val, adj = o["obs"], o["adj"]
        if t in ("direction", "angle", "azimuth") and not sv.lh:
            val, adj = (400.0 - val) % 400.0, (400.0 - adj) % 400.0       # physical clockwise value
        if t in ("dx", "dy", "coordinate-x", "coordinate-y"):
            # a component in the described frame: re-key it by the physical axis it measures
            axis = sv.axes[0] if t in ("dx", "coordinate-x") else sv.axes[1]
            comp = "e" if axis in "ew" else "n"
            sg = 1.0 if axis in "en" else -1.0
            base = "d" if t in ("dx", "dy") else "coordinate-"
            key = (base + comp,) + key[1:]
            k2 = key
            val, adj = sg * val, sg * adj
            if base == "coordinate-":
                off = sv.shift[0] if comp == "e" else sv.shift[1]
                val, adj = val - off, adj - off
            t = base + comp
        if t == "coordinate-z":
            val, adj = val - sv.shift[2], adj - sv.shift[2]
        P["obs"][k2] = {"obs": val, "adj": adj, "stdev": o.get("stdev"), "qrr": o.get("qrr"), "f": o.get("f"), "t": t}
    P["removed_hint"] = None
    return P


# -------------------------------------------------------------------- edits
def resolve_obs(sv, idx):
    """index (1-based) into sv.obs; 99 = the observation written last into the document"""
    if idx != 99:
        return idx
    polar = ("direction", "distance", "angle", "s-distance", "z-angle", "azimuth")
    stations = []
    for o in sv.obs:
        if o["t"] in polar and o["fr"] not in stations:
            stations.append(o["fr"])
    order = [i for st in stations for i, o in enumerate(sv.obs) if o["t"] in polar and o["fr"] == st]
    for t in ("dh", "vector", "coords"):
        order += [i for i, o in enumerate(sv.obs) if o["t"] == t]
    return order[-1] + 1


def apply_edit(sv, e):
    """returns new survey (a copy) ; the law is interpreted by check_law"""
    s = copy.deepcopy(sv)
    k = e["k"]
    if k == "Translate":
        s.shift = (sv.shift[0] + e["de"], sv.shift[1] + e["dn"], sv.shift[2] + (e["du"] if sv.dim != 2 else 0.0))
    elif k == "RotateCircle":
        for st in s.orient:
            s.orient[st] = (s.orient[st] + e["w"] / 1e4) % 400.0
    elif k == "Permute":
        s.order_seed = 100 + e["s"]
    elif k == "Rename":
        maps = {1: lambda i, x: "p%d_%s" % (9 - i, x), 2: lambda i, x: "%sŽ%d" % (x, i), 3: lambda i, x: "Z" * (i + 1) + x.lower() + "-点",
                4: lambda i, x: ["%s&%d", "<%s>%d", "%s'%d", '%s"%d'][i % 4] % (x, i)}          # characters that must be escaped in XML
        if e["s"] == 4:
            s.extra_desc = "a < b & c > d"
        for i, p in enumerate(s.pts):
            s.names[p["id"]] = maps[e["s"]](i, p["id"])
    elif k == "SwitchUnits":
        s.deg = not sv.deg
    elif k == "SwapEnds":
        for o in s.obs:
            if o["t"] == "distance":
                o["swap"] = not o["swap"]
    elif k == "MirrorAxes":
        s.axes, s.lh = e["axes"], e["lefthanded"]
    elif k == "SetAlgorithm":
        s.alg = e["alg"]
    elif k == "SetSigmaApr":
        s.params["sigma-apr"] = sv.params["sigma-apr"] * e["num"] / e["den"]
        s.params["sigma-act"] = e["act"]
    elif k == "SetConfPr":
        s.params["conf-pr"] = e["p"] / 1000.0
    elif k == "SetCovBand":
        s.args = [a for a in s.args] + ["--cov-band", str(e["band"])]
    elif k == "OmitApprox":
        unk = [p for p in s.pts if p["role"] == "unk"]
        sel = {1: unk[:1], 2: unk, 3: unk[::2], 4: unk, 5: unk[-1:], 6: unk[:1]}[e["s"]]
        for p in sel:
            # 4, 5: only the height is missing (3-D networks); 6: only x, y are missing
            p["approx"] = "omit" if e["s"] <= 3 or s.dim != 3 else ("omit_z" if e["s"] in (4, 5) else "omit_xy")
    elif k == "PerturbApprox":
        d = e["mm"] / 1000.0
        if e["mm"] > 300:
            s.params["tol-abs"] = 10.0 * e["mm"]
        for i, p in enumerate(s.pts):
            if p["role"] == "unk":
                # different for every point and coordinate (equal corrections would hide an exchange of unknowns)
                p["pert"] = (d * (1 if i % 2 else -1) * (1 + 0.3 * i), d * (1 if i % 3 else -1) * (0.5 + 0.2 * i), d * 0.5 * (1 + 0.1 * i))
    elif k == "ChangeDatum":
        sets = {1: ("A", "B"), 2: ("C", "D"), 3: ("A", "C", "D"), 4: tuple(p["id"] for p in s.pts), 5: ("A", "D")}[e["s"]]
        for p in s.pts:
            p["con"] = p["id"] in sets
    elif k == "MakeFree":
        for i, p in enumerate(s.pts):
            p["role"] = "unk"
            m = e["s"]
            p["con"] = {1: False, 2: i == 0, 3: i < 2, 4: True, 5: "z", 6: ("xy" if i < 2 else False)}[m]
    elif k == "WeakPoint":
        a, b = s.pts[0], s.pts[1]
        wid = "0W" if e["s"] in (1, 3) else "W"
        wsd = 20000.0 if e["s"] <= 2 else 200000.0
        s.pts.append(dict(id=wid, e=a["e"] + 130.0, n=a["n"] - 70.0, u=a["u"] + 20.0, role="unk", con=False, approx="given", pert=(0.0, 0.0, 0.0)))
        s.names[wid] = wid
        if s.dim == 1:
            new = [dict(t="dh", fr=wid, to=a["id"], to2="", k=len(s.obs), fdh=0.0, tdh=0.0, swap=False, passive=False, sd=wsd)]
        else:
            new = [dict(t="distance", fr=wid, to=q["id"], to2="", k=len(s.obs) + i, fdh=0.0, tdh=0.0, swap=False, passive=False, sd=wsd) for i, q in enumerate((a, b))]
        s.obs = new + s.obs if e["s"] in (1, 3) else s.obs + new
    elif k == "LoneSet":
        first, second, last = s.pts[0]["id"], s.pts[1]["id"], s.pts[-1]["id"]
        s.lonesets = list(sv.lonesets) + [{1: (first, second, 1), 2: (first, second, 2), 3: (first, last, 3), 4: (last, first, 2)}[e["s"]]]
    elif k == "Isolate":
        a = s.pts[0]
        qe, qn = {1: (1, 1), 2: (1, 1), 3: (-1, 1), 4: (1, -1), 5: (1, -1)}[e["s"]]          # quadrant of the single sight
        s.pts.append(dict(id="X", e=a["e"] + qe * 120.0, n=a["n"] + qn * 50.0, u=a["u"] + 3.0, role="unk", con=False, approx="given", pert=(0.0, 0.0, 0.0)))
        s.names["X"] = "X"
        if e["s"] == 5:          # the single determining element is an angle with X as its foresight
            b = s.pts[1]
            s.obs.append(dict(t="angle", fr=a["id"], to=b["id"], to2="X", k=len(s.obs), fdh=0.0, tdh=0.0, swap=False, passive=False))
        else:
            s.obs.append(dict(t="distance", fr=a["id"], to="X", to2="", k=len(s.obs), fdh=0.0, tdh=0.0, swap=False, passive=False))
        if e["s"] in (2, 4) and s.dim == 3:
            s.obs.append(dict(t="dh", fr=a["id"], to="X", to2="", k=len(s.obs), fdh=0.0, tdh=0.0, swap=False, passive=False))
    elif k == "Blunder":
        s.params["tol-abs"] = float(e["tol"])
        o = s.obs[resolve_obs(sv, e["obs"]) - 1]
        m = e["tol"] * e["pct"] / 100.0                       # positional misclosure in mm
        if o["t"] in ("distance", "s-distance", "dh"):
            o["blunder"] = m
        else:
            ea, na, ua = s.enu(o["fr"])
            eb, nb, ub = s.enu(o["to"])
            d = math.hypot(eb - ea, nb - na)
            if o["t"] == "z-angle":
                d = math.sqrt(d * d + (ub - ua) ** 2)
            o["blunder"] = m / (d * 1000.0) / G2R * 1e4          # cc
    elif k == "DeleteObs":
        s.params["tol-abs"] = float(e["tol"])
        del s.obs[resolve_obs(sv, e["obs"]) - 1]
    elif k == "AddConsistentObs":
        have = set((o["t"], o["fr"], o["to"], o["to2"]) for o in s.obs)
        extra = [o for o in s.allopt if (o["t"], o["from"], o["to"], o["to2"]) not in have][:e["s"]]
        for o in extra:
            s.obs.append(dict(t=o["t"], fr=o["from"], to=o["to"], to2=o["to2"], k=len(s.obs), fdh=0.0, tdh=0.0, swap=False, passive=False))
        for st in sorted(set(o["fr"] for o in s.obs if o["t"] == "direction")):
            s.orient.setdefault(st, 12.3456)
    elif k == "InputFeatures":
        s.feat = set(sv.feat) | {{1: "coords_split", 2: "dh_dist", 3: "dh_dist_only", 4: "dir_dh", 5: "extern", 6: "angle_dh", 7: "ellipsoid", 8: "obs_cov", 9: "obs_cov"}[e["s"]]}
        if e["s"] == 9:
            s.deg = True                 # the correlated clusters of a survey written in degrees
        if e["s"] == 7:
            s.params = dict(s.params, latitude="49.5", ellipsoid="wgs84", algorithm="svd")
            s.params["cov-band"] = "2"
    elif k == "AttachHeights":
        for i, o in enumerate(s.obs):
            if o["t"] in ("s-distance", "z-angle"):
                if e["s"] <= 2:
                    o["fdh"] = 1.5 + 0.1 * (i % 3) if e["s"] >= 1 else 0.0
                    o["tdh"] = 1.3 + 0.2 * (i % 2) if e["s"] == 2 else 0.0
                elif e["s"] == 3:            # a reflector on a pole, instrument on a pillar: target height only, below tol-abs
                    o["fdh"], o["tdh"] = 0.0, 0.30 + 0.05 * (i % 3)
                else:                        # instrument height only, below tol-abs
                    o["fdh"], o["tdh"] = 0.25 + 0.05 * (i % 2), 0.0
    return s


def rel(a, b, tol, floor=1e-12):
    return abs(a - b) <= tol * max(abs(a), abs(b), floor)


def inconsistent(sv):
    """left-handed coordinate axes with counterclockwise angles or vice versa (gama flips y internally)"""
    return (sv.axes in ("ne", "sw", "es", "wn")) != sv.lh


def ellipse_dir(P, sv, pid):
    return None


def check_law(A, B, e, law, svA, svB, report, tolc=3e-6):
    """A, B physical projections before / after edit e; report(check, text)"""
    # a perturbed start ends where gama's linearization test is satisfied, not at the limit of the iteration: second-order
    # quantities (sum of squares, standard deviations, ellipse directions) agree to about 1e-4, coordinates to the usual tolerance
    loose = 50.0 if e.get("k") == "PerturbApprox" else 1.0
    if A["outcome"] != "adjusted" or B["outcome"] != "adjusted":
        if A["outcome"] != B["outcome"]:
            report("outcome", "outcome %s becomes %s" % (A["outcome"], B["outcome"]))
        return
    k = e["k"]
    # --- coordinates
    if law["coords"] in ("same", "shift", "axes", "rename"):
        if set(A["pts"]) != set(B["pts"]):
            report("points", "adjusted points %s become %s" % (sorted(A["pts"]), sorted(B["pts"])))
        for pid in A["pts"]:
            for c, v in A["pts"][pid].items():
                w = B["pts"].get(pid, {}).get(c)
                if w is None or abs(v - w) > tolc:
                    report("coords", "point %s %s: %.7f -> %s (physical frame, translation removed)" % (pid, c, v, w))
    # --- statistics
    if law["stats"] in ("same", "conf"):
        for f in ("dof", "defect", "equations", "unknowns"):
            if A[f] != B[f]:
                report("stats", "%s %s -> %s" % (f, A[f], B[f]))
        # consistent observations: sum of squares is rounding noise (< 1e-6), nothing to compare
        if max(A["pvv"], B["pvv"]) > 1e-6 and not rel(A["pvv"], B["pvv"], 2e-5 * loose, 1e-9):
            report("stats", "sum of squares %r -> %r" % (A["pvv"], B["pvv"]))
        if max(A["pvv"], B["pvv"]) > 1e-6 and not rel(A["aposteriori"], B["aposteriori"], 2e-5 * loose, 1e-6):
            report("stats", "aposteriori %r -> %r" % (A["aposteriori"], B["aposteriori"]))
    if law["stats"] == "sigma":
        r = (e["num"] / e["den"])
        if A["dof"] != B["dof"]:
            report("stats", "dof changed")
        if not rel(A["pvv"], B["pvv"] / (r * r), 2e-5, 1e-9):
            report("sigma", "sum of squares should scale by %g: %r -> %r" % (r * r, A["pvv"], B["pvv"]))
    # --- observations
    if law["obs"] in ("same", "perm", "rename", "swap", "axes", "rotdir", "sigma"):
        if set(A["obs"]) != set(B["obs"]):
            report("obs", "observation sets differ: %s" % sorted(set(A["obs"]) ^ set(B["obs"]))[:4])
        for key, oa in A["obs"].items():
            ob = B["obs"].get(key)
            if ob is None or oa["adj"] is None:
                continue
            ang = oa["t"] in ANGULAR
            d = ob["adj"] - oa["adj"]
            if ang:
                d = wrap200(d)
            skip = oa["t"] == "direction" and law["obs"] == "rotdir"       # circle readings shift with the zero of the circle
            if not skip and abs(d) > (3e-7 if ang else tolc):
                report("obs_adj", "adjusted %s: %r -> %r" % (key, oa["adj"], ob["adj"]))
            if law["obs"] != "sigma" and oa["stdev"] is not None and svA.params["sigma-act"] == svB.params["sigma-act"]:
                sa, sb = oa["stdev"], ob["stdev"]
                if not rel(sa, sb, 5e-5 * loose, 1e-7):
                    report("obs_stdev", "stdev of adjusted %s: %r -> %r" % (key, sa, sb))
    # --- orientations
    if law["obs"] in ("superset", "any") or law["coords"] == "datum":
        pass
    elif law["obs"] != "rotdir":
        for s_, v in A["ori"].items():
            w = B["ori"].get(s_)
            if w is None:
                report("ori", "orientation of %s missing" % s_)
                continue
            va = v if svA.lh else -v
            wb = w if svB.lh else -w
            if svA.axes != svB.axes or svA.lh != svB.lh:
                continue              # the orientation unknown is defined relative to the described axes
            if abs(wrap200(va - wb)) > 3e-7 * (10 if loose > 1 else 1):
                report("ori", "orientation unknown of %s (physical): %r -> %r" % (s_, va, wb))
    else:
        for s_, v in A["ori"].items():
            w = B["ori"].get(s_)
            if w is None:
                continue
            # the orientation unknown is expressed in the described axes: it grows with the zero of the
            # circle for left-handed axes (ne, sw, es, wn) and decreases for right-handed ones
            sgn = 1.0 if svA.axes in ("ne", "sw", "es", "wn") else -1.0
            if abs(wrap200((w - v) - sgn * e["w"] / 1e4)) > 3e-7:
                report("ori", "orientation of %s should shift by %g gon: %r -> %r" % (s_, sgn * e["w"] / 1e4, v, w))
    # --- covariance
    if law["cov"] == "datum":
        pass
    if law["cov"] in ("same", "perm", "axes"):
        scale = max([abs(v) for v in A["cov"].values()] + [1e-12])
        # after a perturbed start gama stops iterating as soon as its linearization test passes: the Jacobian is taken a few
        # millimetres off the final point and the covariances agree to about 1e-4 only
        ctol = 1e-3 if e.get("k") == "PerturbApprox" else 5e-5
        for key, v in A["cov"].items():
            w = B["cov"].get(key)
            if w is None:
                if A["cov_band"] == B["cov_band"] and law["cov"] == "same":
                    report("cov", "covariance %s missing" % (key,))
                continue
            if abs(v - w) > ctol * scale:
                if abs(v + w) <= ctol * scale and (inconsistent(svA) or inconsistent(svB)):
                    report("cov_sign_inconsistent_system", "covariance %s: %r -> %r (sign of x-y terms not restored when gama flips y internally)" % (key, v, w))
                else:
                    report("cov", "covariance %s: %r -> %r" % (key, v, w))
    # --- error ellipses (semi-axes; direction of the major axis as a physical line)
    if law["cov"] in ("same", "perm", "axes") and A.get("ell") is not None and B.get("ell") is not None:
        # the semi-axes are square roots of the eigenvalues of a 2x2 covariance block: a relative error r of the covariances moves a
        # vanishing minor axis by major * sqrt(r), so the axes are compared by their squares on the scale of the major axis; the
        # ellipse of a point whose covariances vanish (a constrained point that alone carries the datum) has no direction
        top = max([x["major"] for x in A["ell"].values()] + [x["major"] for x in B["ell"].values()] + [1e-12])
        for pid, ea in A["ell"].items():
            eb = B["ell"].get(pid)
            if eb is None:
                continue
            sc = max(ea["major"], eb["major"], 1e-3) ** 2
            if abs(ea["major"] ** 2 - eb["major"] ** 2) > 2 * ctol * sc or abs(ea["minor"] ** 2 - eb["minor"] ** 2) > 2 * ctol * sc:
                report("ellipse_axes", "ellipse of %s: semi-axes %r,%r -> %r,%r" % (pid, ea["major"], ea["minor"], eb["major"], eb["minor"]))
            elif ea["major"] > 1.001 * ea["minor"] and ea["major"] > 1e-4 * top:
                # angle between the two physical lines
                d = abs(ea["dir"][0] * eb["dir"][1] - ea["dir"][1] * eb["dir"][0])
                if d > 2e-4 * loose:
                    mir = abs(ea["dir"][0] * eb["dir"][1] + ea["dir"][1] * eb["dir"][0])
                    if inconsistent(svA) or inconsistent(svB):
                        report("ellipse_dir_inconsistent_system", "major axis of the ellipse of %s turns (physical direction %s -> %s)" % (pid, ea["dir"], eb["dir"]))
                    else:
                        report("ellipse_dir", "major axis of the ellipse of %s turns (physical direction %s -> %s)" % (pid, ea["dir"], eb["dir"]))
    if law["cov"] == "band":
        scale = max([abs(v) for v in A["cov"].values()] + [1e-12])
        exp = A["cov_dim"] - 1 if e["band"] < 0 else min(e["band"], A["cov_dim"] - 1)
        if B["cov_band"] != exp:
            report("band", "--cov-band %d: band %s, expected %s" % (e["band"], B["cov_band"], exp))
        for key, w in B["cov"].items():
            v = A["cov"].get(key)
            if v is not None and abs(v - w) > 5e-5 * scale:
                report("cov", "covariance %s: %r (full) vs %r (band)" % (key, v, w))
    if law["cov"] == "sigma" and svB.params["sigma-act"] == svA.params["sigma-act"]:
        # weights scale with sigma-apr^2, cofactors with its inverse: covariances (m0^2 Q) do not depend on sigma-apr,
        # neither with the a priori nor with the a posteriori reference deviation
        cscale = max([abs(v) for v in A["cov"].values()] + [1e-12])          # structurally zero covariances are rounding noise
        for key, v in A["cov"].items():
            w = B["cov"].get(key)
            if w is not None and not rel(v, w, 5e-5, 1e-9 * cscale):
                report("sigma", "covariance %s must not depend on sigma-apr: %r -> %r" % (key, v, w))
                break


def check_truth(P, sv, report, tol=2e-6):
    """C06: consistent observations reproduce the generating coordinates"""
    if P["outcome"] != "adjusted":
        report("truth_outcome", "consistent network not adjusted: %s" % P["outcome"])
        return
    unk = [p for p in sv.pts if p["role"] in ("unk", "unkz")]
    for p in unk:
        got = P["pts"].get(p["id"])
        if got is None:
            report("truth_missing", "unknown point %s not in the adjusted list" % p["id"])
            continue
        for c, true in (("e", p["e"]), ("n", p["n"]), ("u", p["u"])):
            if c in got and abs(got[c] - true) > tol:
                report("truth_coords", "point %s %s: adjusted %.7f, true %.7f" % (p["id"], c, got[c], true))
    for key, o in P["obs"].items():
        if o["adj"] is None:
            continue
        d = o["adj"] - o["obs"]
        if o["t"] in ANGULAR:
            d = wrap200(d)
        if abs(d) > (2e-7 if o["t"] in ANGULAR else 2e-6):
            report("truth_resid", "residual of %s is %g" % (key, d))
