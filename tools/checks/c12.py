"""C12 - the XML result is a faithful, well-formed serialisation of the adjustment.
 (a) XmlResult.tla: escape law checked by TLC on all strings over {a < > & ' " e-acute _} up to
     length 3; the strings are used as point ids / description in generated networks: the XML
     result must be well-formed, and gama's own reader (LocalNetworkAdjustmentResults::read_xml,
     driver drv_results) must return the same ids, coordinates, covariance band, orientations,
     observations and statistics as an independent reader (ElementTree);
 (b) the HTML output read by read_html carries the same adjustment;
 (c) the numeric tokens of the text output are the same for every --language / --encoding;
 (d) compare-xyz R R reports zero differences, gama-local-deformation of an epoch with itself
     reports zero shifts; (e) SetCovBand law (all --cov-band values)."""
import json, os, re, subprocess
import math
import vlib, gl, sessions, session, octave
LEVEL = "exploration"
LANGS = ["en", "ca", "cz", "du", "es", "fi", "fr", "hu", "ru", "ua", "zh"]


def close(a, b, tol=1e-9):
    return abs(a - b) <= tol * max(1.0, abs(a), abs(b))


def compare_reader(ctx, tag, mine, theirs, text, html=False):
    """mine: gl.parse_adjustment ; theirs: drv_results record"""
    def report(chk, msg):
        ctx.violation("%s|%s" % (chk, tag), msg, replay={"gkf": text})
    if "error" in theirs or "xmlerror" in theirs:
        report("reader_error", "gama's own reader refuses the result: %s" % {k: theirs[k] for k in theirs if k in ("error", "xmlerror", "line")})
        return
    if not html and (theirs["description"] or "").strip() != (mine["description"] or "").strip():
        report("description", "description %r read back as %r" % (mine["description"], theirs["description"]))
    for k in ("equations", "unknowns", "dof", "defect"):
        if theirs[k] != mine[k]:
            report("stats", "%s: %s read back as %s" % (k, mine[k], theirs[k]))
    for k, tol in (("pvv", 1e-9), ("apriori", 1e-9), ("aposteriori", 1e-9), ("conf_scale", 1e-9)):
        if not html and not close(theirs[k], mine[k], tol):
            report("stats", "%s: %r read back as %r" % (k, mine[k], theirs[k]))
    for sec in ("fixed", "approximate", "adjusted"):
        a, b = mine[sec], theirs[sec]
        if [p["id"] for p in a] != [p["id"] for p in b]:
            odd = any(" " in p["id"] or '"' in p["id"] or "'" in p["id"] for p in a)
            report("ids_with_blank_or_quote" if odd else "ids", "%s point ids %s read back as %s" % (sec, [p["id"] for p in a], [p["id"] for p in b]))
            continue
        for p, q in zip(a, b):
            for c in ("x", "y", "z"):
                v = p.get(c, p.get(c.upper()))
                if (v is None) != (c not in q):
                    report("coords", "%s point %s: coordinate %s present in one reading only" % (sec, p["id"], c))
                elif v is not None and not close(v, q[c], 1e-6 if html else 1e-12):
                    report("coords", "%s point %s %s: %r read back as %r" % (sec, p["id"], c, v, q[c]))
            if sec == "adjusted" and not html:
                if ("X" in p) != bool(q.get("cxy", 0)) and ("x" in p or "X" in p):
                    report("constrained", "point %s: constrained xy flag differs" % p["id"])
    if [o["id"] for o in mine["orientations"]] != [o["id"] for o in theirs["orientations"]]:
        odd = any(" " in o["id"] or '"' in o["id"] or "'" in o["id"] for o in mine["orientations"])
        report("ids_with_blank_or_quote" if odd else "ids", "orientation ids %s read back as %s" % ([o["id"] for o in mine["orientations"]], [o["id"] for o in theirs["orientations"]]))
    for o, q in zip(mine["orientations"], theirs["orientations"]):
        if not close(o["adj"], q["adj"], 1e-6 if html else 1e-12):
            report("orientation", "orientation %s adj %r read back as %r" % (o["id"], o["adj"], q["adj"]))
    if not html:
        if mine["cov_dim"] != theirs["cov_dim"] or mine["cov_band"] != theirs["cov_band"] or len(mine["cov"]) != len(theirs["cov"]):
            report("cov", "cov-mat dim/band %s/%s (%d elements) read back as %s/%s (%d)" % (mine["cov_dim"], mine["cov_band"], len(mine["cov"]), theirs["cov_dim"], theirs["cov_band"], len(theirs["cov"])))
        else:
            for x, y in zip(mine["cov"], theirs["cov"]):
                if not close(x, y, 1e-9):
                    report("cov", "cov-mat element %r read back as %r" % (x, y))
                    break
        if theirs["orig_index"][:1] == [-1]:
            theirs["orig_index"] = theirs["orig_index"][1:]         # the reader keeps a 1-based vector with a dummy element 0
        if mine["orig_index"] != theirs["orig_index"]:
            report("orig_index", "original-index %s read back as %s" % (mine["orig_index"], theirs["orig_index"]))
    if html:
        return          # the HTML tables print rounded values in other units: only ids, coordinates and counts are compared
    if len(mine["obs"]) != len(theirs["obs"]):
        report("obs", "%d observations, %d read back" % (len(mine["obs"]), len(theirs["obs"])))
    else:
        for o, q in zip(mine["obs"], theirs["obs"]):
            if not html and (o["type"] != q["type"] or o.get("from", o.get("id", "")) != q["from"] or o.get("to", "") != q["to"] or o.get("left", "") != q["left"] or o.get("right", "") != q["right"]):
                odd = any(" " in str(o.get(k_, "")) for k_ in ("from", "to", "left", "right", "id"))
                report("obs_ids_with_blank" if odd else "obs", "observation %s %s->%s read back as %s %s->%s" % (o["type"], o.get("from", o.get("id")), o.get("to"), q["type"], q["from"], q["to"]))
            for k in ("obs", "adj", "stdev"):
                if k in o and not close(o[k], q[k], 2e-5 if html else 1e-12):
                    report("obs", "observation %s %s->%s %s: %r read back as %r" % (o["type"], o.get("from"), o.get("to"), k, o[k], q[k]))


def significant(a, b, digits):
    """a was printed with `digits` significant digits of b"""
    if a == b:
        return True
    return abs(a - b) <= 0.6 * 10.0 ** (math.floor(math.log10(max(abs(a), abs(b)))) - digits + 1)


def check_xml_internal(ctx, tag, res, text):
    """relations inside one XML result: the adjusted value of an observed coordinate is the adjusted coordinate of its point,
    adjusted = approximate + correction is what <adjusted> holds, the covariance matrix has dim*(band+1) - band*(band+1)/2 elements"""
    def report(chk, msg):
        ctx.violation("xml_%s|%s" % (chk, tag), msg, replay={"gkf": text})
    pts = {p["id"]: p for p in res["adjusted"]}
    fixed = {p["id"]: p for p in res["fixed"]}
    n = 0
    for o in res["obs"]:
        if o["type"] in ("coordinate-x", "coordinate-y", "coordinate-z"):
            c = o["type"][-1]
            p = pts.get(o.get("id"), fixed.get(o.get("id"), {}))
            v = p.get(c, p.get(c.upper()))
            if v is None:
                continue
            n += 1
            if abs(o["adj"] - v) > 2e-6:
                report("coordinate_obs", "observed coordinate %s of point %s: <adj> %r, adjusted coordinate of the point %r" % (c, o.get("id"), o["adj"], v))
    dim, band = res["cov_dim"], res["cov_band"]
    if dim is not None and len(res["cov"]) != dim * (band + 1) - band * (band + 1) // 2:
        report("cov_count", "cov-mat dim %s band %s holds %d elements" % (dim, band, len(res["cov"])))
    COUNTS["xml_coordinate_obs"] = COUNTS.get("xml_coordinate_obs", 0) + n


def check_octave(ctx, tag, res, mtext, text):
    """the .m script carries the same adjustment as the XML (res = independent reading of the XML)"""
    def report(chk, msg):
        ctx.violation("octave_%s|%s" % (chk, tag), msg, replay={"gkf": text})
    try:
        env = octave.parse(mtext)
    except octave.OctaveError as ex:
        cls = "apostrophe" if "apostrophe" in str(ex) else "syntax"
        report(cls, "the Octave script cannot be read: %s" % ex)
        return 0
    for name, val in (("unknowns", res["unknowns"]), ("observations", res["equations"]), ("network_defect", res["defect"])):
        if env.get(name) != val:
            report("stats", "%s = %s, the XML says %s" % (name, env.get(name), val))
    for name, key in (("m_0_apriori", "apriori"), ("m_0_aposteriori", "aposteriori"), ("sum_of_squares", "pvv")):
        if name not in env or not significant(env[name], res[key], 6):
            report("stats", "%s = %s, the XML says %r" % (name, env.get(name), res[key]))
    for kind in ("adjusted", "constrained", "fixed"):
        for j, suf in enumerate(("xyz", "xy", "z")):
            if env.get("%s_%s" % (kind, suf)) != res["coord_summary"][kind][j]:
                report("stats", "%s_%s = %s, the XML says %s" % (kind, suf, env.get("%s_%s" % (kind, suf)), res["coord_summary"][kind][j]))
    if env.get("FixedPoints") != [p["id"] for p in res["fixed"]]:
        report("ids", "FixedPoints %s, the XML has %s" % (env.get("FixedPoints"), [p["id"] for p in res["fixed"]]))
    if env.get("Points") != [p["id"] for p in res["adjusted"]]:
        report("ids", "Points %s, the XML has %s" % (env.get("Points"), [p["id"] for p in res["adjusted"]]))
        return 1
    for p, row in zip(res["fixed"], env.get("FixedXYZ", [])):
        for j, c in enumerate("xyz"):
            if c in p and abs(row[2 + j] - p[c]) > 0.6e-6:
                report("coords", "FixedXYZ(%s, %s) = %r, the XML says %r" % (p["id"], c, row[2 + j], p[c]))
    for mat, sec in (("XYZ", "adjusted"), ("XYZ_0", "approximate")):
        rows = env.get(mat, [])
        byid = {p["id"]: p for p in res[sec]}
        for p, row in zip(res["adjusted"], rows):
            q = byid.get(p["id"], {})
            for j, c in enumerate("xyz"):
                v = q.get(c, q.get(c.upper()))
                if v is not None and abs(row[j] - v) > 0.6e-6:
                    report("coords", "%s(%s, %s) = %r, the XML says %r" % (mat, p["id"], c, row[j], v))
    # C_xx = covariance block of the coordinates (the XML lists coordinates first, then orientations)
    ncoord = sum(1 for p, c in gl.unknown_order(res) if c != "ori")
    cxx = env.get("C_xx")
    if res["cov_band"] == res["cov_dim"] - 1 and cxx is not None:
        full = gl.cov_full(res)
        if len(cxx) != ncoord:
            report("cov", "C_xx has %d rows, %d adjusted coordinates" % (len(cxx), ncoord))
        else:
            for i in range(ncoord):
                for j in range(ncoord):
                    want = full[(min(i, j) + 1, max(i, j) + 1)]
                    if not significant(cxx[i][j], want, 7) and abs(cxx[i][j] - want) > 1e-9:
                        report("cov", "C_xx(%d,%d) = %r, the XML says %r" % (i + 1, j + 1, cxx[i][j], want))
    # the script's own assertion: x listed by gama equals inv(A'PA) A'Pb (regular networks)
    if res["defect"] == 0 and "A" in env and "C_ll" in env and "b" in env and "x_listed" in env and all(not p for p in [res["coord_summary"]["constrained"][k] for k in range(3)]):
        m, n = int(env["observations"]), int(env["unknowns"])
        A = octave.dense(env["A"], m, n)
        C = octave.dense(env["C_ll"], m, m)
        b = [r[0] for r in env["b"]]
        # P = inv(C): solve C Y = [A b]
        cols = []
        for j in range(n + 1):
            rhs = [A[i][j] for i in range(m)] if j < n else b
            y = octave.solve(C, rhs)
            if y is None:
                report("solve", "C_ll of the script is singular")
                return 1
            cols.append(y)
        N = [[sum(A[k][i] * cols[j][k] for k in range(m)) for j in range(n)] for i in range(n)]
        rhs = [sum(A[k][i] * cols[n][k] for k in range(m)) for i in range(n)]
        x = octave.solve(N, rhs)
        # C_xx = m0^2 inv(A'PA) on the coordinate unknowns (C03 on general networks, through gama's own dump)
        idx = [int(v) for row in env.get("Indexes", []) for v in row if int(v) > 0]
        if x is not None and cxx is not None and len(idx) == len(cxx):
            # C_ll of the script holds cofactors (covariances divided by m0 apriori squared): C_xx = m0^2 inv(A'PA) with the m0 in use
            fac = res["aposteriori"] ** 2 if res.get("used") == "aposteriori" else res["apriori"] ** 2
            for a_, ia in enumerate(idx):
                unit = [1.0 if k == ia - 1 else 0.0 for k in range(n)]
                col = octave.solve(N, unit)
                for b_, ib in enumerate(idx):
                    want = fac * col[ib - 1]
                    if abs(cxx[b_][a_] - want) > 2e-6 * max(abs(want), abs(fac * col[ia - 1]), 1e-9):
                        report("cxx_vs_normal", "C_xx(%d,%d) = %r, m0^2 inv(A'PA) gives %r" % (b_ + 1, a_ + 1, cxx[b_][a_], want))
                        break
        if x is None:
            report("solve", "normal equations of the script are singular although the defect is 0")
        else:
            COUNTS["octave_solved"] = COUNTS.get("octave_solved", 0) + 1
            d = math.sqrt(sum(((row[0] - xi) * row[1] * 1000) ** 2 for row, xi in zip(env["x_listed"], x)))
            if d > 1e-3:
                report("solve", "the script's own assertion fails: xyzdiff_mm = %r > 1e-3" % d)
    return 1


COUNTS = {"text_coord_rows": 0, "text_obs_rows": 0, "compare_xyz_points": 0, "deformation_points": 0, "octave_solved": 0}
TEXT_ROW = re.compile(r"^\s*(\d+)\s+(?:\S+\s+)?([xyzXYZ])\s+(?:\*\s+)?(-?\d+\.\d+)\s+(-?\d+\.\d+)\s+(-?\d+\.\d+)\s+(\d+\.\d+)\s+(\d+\.\d+)\s*$")


HEIGHT_ROW = re.compile(r"^\s*(\d+)\s+\S+\s+(-?\d+\.\d+)\s+(-?\d+\.\d+)\s+(-?\d+\.\d+)\s+(\d+\.\d+)\s+(\d+\.\d+)\s*$")


def check_text(ctx, tag, res, text_out, gkf):
    """English text listing against the XML: adjusted coordinates, their standard deviations, adjusted observations"""
    def report(chk, msg):
        ctx.violation("text_%s|%s" % (chk, tag), msg, replay={"gkf": gkf})
    sec, rows = False, []
    for l in text_out.split("\n"):
        if l.startswith("Adjusted coordinates") or l.startswith("Adjusted heights"):
            sec = True
        elif sec and re.match(r"^[A-Z][a-z]+ [a-z]", l) and not l.startswith("Adjusted coordinates"):
            sec = False                                   # next section heading
        elif sec:
            m = TEXT_ROW.match(l)
            if m:
                rows.append(m.groups())
            else:
                m = HEIGHT_ROW.match(l)                   # levelling networks: one row per point, no coordinate letter
                if m:
                    rows.append((m.group(1), "z") + m.groups()[1:])
    order = [(p, c) for p, c in gl.unknown_order(res) if c != "ori"]
    if len(rows) != len(order):
        report("coords", "%d adjusted-coordinate rows in the text, %d adjusted coordinates in the XML" % (len(rows), len(order)))
        return
    byid = {p["id"]: p for p in res["adjusted"]}
    full = gl.cov_full(res)
    COUNTS["text_coord_rows"] += len(rows)
    for k, ((pid, c), row) in enumerate(zip(order, rows), 1):
        v = byid[pid][c]
        if row[1] != c or abs(float(row[4]) - v) > 0.6e-5:
            report("coords", "row %s %s: adjusted %s in the text, %r (%s %s) in the XML" % (row[0], row[1], row[4], v, pid, c))
        sd = math.sqrt(max(full[(k, k)], 0.0))
        if abs(float(row[5]) - sd) > 0.06 + 1e-4 * sd:
            report("stdev", "row %s %s: std.dev %s in the text, sqrt(cov) = %.4f in the XML" % (row[0], row[1], row[5], sd))
    # adjusted observations: the section lists index ... observed adjusted std.dev conf.i.
    lines = text_out.split("\n")
    try:
        a = next(i for i, l in enumerate(lines) if l.startswith("Adjusted observations"))
    except StopIteration:
        report("obs", "section 'Adjusted observations' not found")
        return
    # a network without redundancy has no section of residuals
    b = next((i for i, l in enumerate(lines) if l.startswith("Residuals and analysis of observations")), len(lines))
    obsrows = []
    for l in lines[a:b]:
        # a row ends with observed, adjusted, std.dev, conf.i.; the row of an angle has its index on the preceding line
        m = re.match(r"^\s*(.*?)\s(-?\d+\.\d+)\s+(-?\d+\.\d+)\s+(\d+\.\d+)\s+(\d+\.\d+)\s*$", l)
        if m:
            obsrows.append((str(len(obsrows) + 1),) + m.groups()[1:])
    if len(obsrows) != len(res["obs"]):
        report("obs", "%d adjusted-observation rows in the text, %d observations in the XML" % (len(obsrows), len(res["obs"])))
        return
    COUNTS["text_obs_rows"] += len(obsrows)
    for row, o in zip(obsrows, res["obs"]):
        dec = len(row[2].split(".")[1])
        if abs(float(row[1]) - o["obs"]) > 0.6 * 10 ** -dec or abs(float(row[2]) - o["adj"]) > 0.6 * 10 ** -dec:
            report("obs", "observation %s: observed/adjusted %s / %s in the text, %r / %r in the XML" % (row[0], row[1], row[2], o["obs"], o["adj"]))
        if abs(float(row[3]) - o["stdev"]) > 0.06 + 1e-4 * o["stdev"]:
            report("obs_stdev", "observation %s: std.dev %s in the text, %r in the XML" % (row[0], row[3], o["stdev"]))


def check_tools(ctx, q, nets):
    """compare-xyz and gama-local-deformation on pairs (epoch, the same network translated)"""
    cx = vlib.binpath("plain", "compare-xyz")
    df = vlib.binpath("plain", "gama-local-deformation")
    wd = os.path.join(ctx.outdir, "tools")
    os.makedirs(wd, exist_ok=True)
    jobs, meta = [], []
    shifts = [(3.0, -2.0, 1.0), (0.0, 0.0, 0.0), (-0.25, 0.5, -0.125)]
    for ni, net in enumerate(nets[: 30 if q else 200]):
        sv = sessions.base_survey(net)
        sh = shifts[ni % 3]
        sv2 = session.apply_edit(sv, {"k": "Translate", "de": sh[0], "dn": sh[1], "du": sh[2]})
        if ni % 2 == 1 or net["t"] in ("vec3d", "vecmix3d"):
            # epochs with different point sets: the first epoch lacks the first unknown point (all optional observations are used so that
            # the rest stays determined); the positions of the common coordinates in the two covariance matrices then differ
            full = session.apply_edit(sv, {"k": "AddConsistentObs", "s": 9})
            unk = [p["id"] for p in full.pts if p["role"] == "unk"]
            if len(unk) >= 3:
                import copy
                e1 = copy.deepcopy(full)
                e1.pts = [p for p in e1.pts if p["id"] != unk[0]]
                e1.obs = [o for o in e1.obs if unk[0] not in (o["fr"], o["to"], o["to2"])]
                sv, sv2 = e1, session.apply_edit(full, {"k": "Translate", "de": sh[0], "dn": sh[1], "du": sh[2]})
        for which, s in ((0, sv), (1, sv2)):
            jobs.append({"gkf": s.gkf(), "args": [], "want": ["xml"], "keep": True})
            meta.append((ni, which))
    runs = gl.run_many(ctx, jobs)
    n = 0
    for k in range(0, len(runs), 2):
        r1, r2 = runs[k], runs[k + 1]
        if r1.res is None or r2.res is None or r1.res["outcome"] != "adjusted" or r2.res["outcome"] != "adjusted":
            continue
        net = nets[meta[k][0]]
        tag = net["t"]
        f1, f2 = os.path.join(wd, "e1_%d.xml" % k), os.path.join(wd, "e2_%d.xml" % k)
        open(f1, "wb").write(r1.files["xml"])
        open(f2, "wb").write(r2.files["xml"])
        a1 = {p["id"]: p for p in r1.res["adjusted"]}
        a2 = {p["id"]: p for p in r2.res["adjusted"]}
        get = lambda p, c: p.get(c, p.get(c.upper()))
        for (fa, fb, pa, pb, what) in ((f1, f2, a1, a2, "pair"), (f1, f1, a1, a1, "self")):
            n += 2
            # ---- compare-xyz: points having x, y and z in both results
            rc, out = vlib.sh([cx, fa, fb], timeout=60)
            exp = {}
            for pid in pa:
                if pid in pb and all(get(pa[pid], c) is not None and get(pb[pid], c) is not None for c in "xyz"):
                    exp[pid] = [get(pb[pid], c) - get(pa[pid], c) for c in "xyz"]
            got = {}
            ls = out.split("\n")
            for i, l in enumerate(ls):
                m = re.match(r"^(\S+)\s+3\s+(-?\d+\.\d+)\s+(-?\d+\.\d+)\s+(-?\d+\.\d+)\s*$", l)
                if m and i + 1 < len(ls):
                    d = re.findall(r"-?\d+\.\d+", ls[i + 1])
                    if len(d) == 3:
                        got[m.group(1)] = [float(v) for v in d]
            mx = re.search(r"^max\s+(-?\d+\.\d+)\s+(-?\d+\.\d+)\s+(-?\d+\.\d+)", out, re.M)
            COUNTS["compare_xyz_points"] += len(exp)
            if set(got) != set(exp):
                ctx.violation("compare_xyz|points|" + what, "compare-xyz lists points %s, common xyz points are %s" % (sorted(got), sorted(exp)), replay={"out": out})
            else:
                for pid in exp:
                    if any(abs(g - e) > 1e-9 for g, e in zip(got[pid], exp[pid])):
                        ctx.violation("compare_xyz|diff|" + what, "compare-xyz difference of %s is %s, the coordinates differ by %s" % (pid, got[pid], exp[pid]), replay={"out": out})
                emax = [max([v[j] for v in exp.values()] + [0.0], key=abs) for j in range(3)]
                if not mx or any(abs(float(mx.group(j + 1)) - emax[j]) > 1e-9 for j in range(3)):
                    ctx.violation("compare_xyz|max|" + what, "compare-xyz max row %s, expected %s" % (mx.groups() if mx else None, emax), replay={"out": out})
                big = max([abs(v) for v in emax] + [0.0])
                if (rc != 0) != (big > 1e-5) or ("Failed" in out) != (big > 1e-5):
                    ctx.violation("compare_xyz|verdict|" + what, "compare-xyz exits %s for a maximal difference of %r (tolerance 1e-5)" % (rc, big), replay={"out": out})
            # ---- deformation
            rc, out = vlib.sh([df, fa, fb], timeout=60)
            if rc != 0:
                ctx.violation("deformation|run|" + what, "gama-local-deformation exits %s: %s" % (rc, out[-300:]))
                continue
            rows = {}
            for l in out.split("\n"):
                m = re.match(r"^(\S+)\s+(\d+) (\d+) (\d+)\s+(-?\d+\.\d+)\s+(-?\d+\.\d+)\s+(-?\d+\.\d+)\s+(-?\d+\.\d+)\s+(-?\d+\.\d+)\s+(-?\d+\.\d+)\s*$", l)
                if m:
                    rows[m.group(1)] = ([int(m.group(j)) for j in (2, 3, 4)], [float(m.group(j)) for j in (5, 6, 7)], [float(m.group(j)) for j in (8, 9, 10)])
            common = [pid for pid in pa if pid in pb]
            if set(rows) != set(common):
                ctx.violation("deformation|points|" + what, "deformation lists %s, common adjusted points are %s" % (sorted(rows), sorted(common)), replay={"out": out})
                continue
            full1, full2 = gl.cov_full(r1.res), gl.cov_full(r2.res if what == "pair" else r1.res)
            idx1 = {pc: i + 1 for i, pc in enumerate(gl.unknown_order(r1.res))}
            idx2 = {pc: i + 1 for i, pc in enumerate(gl.unknown_order(r2.res if what == "pair" else r1.res))}
            cov_rows = []
            seen = False
            for l in out.split("\n"):
                if l.startswith("# deformation covariance"):
                    seen = True
                    continue
                if seen and re.match(r"^\s*-?\d+\.\d+", l):
                    cov_rows.append([float(v) for v in l.split()])
            COUNTS["deformation_points"] += len(common)
            for pid in common:
                ind, sh_, e2 = rows[pid]
                for j, c in enumerate("xyz"):
                    v1, v2 = get(pa[pid], c), get(pb[pid], c)
                    if v1 is None or v2 is None:
                        continue
                    if abs(sh_[j] - (v2 - v1)) > 0.6e-5 or abs(e2[j] - v2) > 0.6e-5:
                        ctx.violation("deformation|shift|" + what, "point %s %s: shift %r / epoch-2 value %r, the results give %r / %r" % (pid, c, sh_[j], e2[j], v2 - v1, v2), replay={"out": out})
                    # variance of the shift = sum of the variances of the two epochs
                    i = ind[j]
                    cu = next((cc for cc in (c, c.upper()) if (pid, cc) in idx1), None)
                    cu2 = next((cc for cc in (c, c.upper()) if (pid, cc) in idx2), None)
                    if i and cu and cu2 and i <= len(cov_rows) and cov_rows[i - 1]:
                        want = full1[(idx1[(pid, cu)],) * 2] + full2[(idx2[(pid, cu2)],) * 2]
                        if not significant(cov_rows[i - 1][0], want, 7) and abs(cov_rows[i - 1][0] - want) > 1e-4:
                            ctx.violation("deformation|cov|" + what, "point %s %s: variance of the shift %r, sum of the variances of the epochs %r" % (pid, c, cov_rows[i - 1][0], want), replay={"out": out})
        os.remove(f1)
        os.remove(f2)
    return n


def numeric_tokens(text):
    return re.findall(r"(?<![A-Za-z0-9_.])[-+]?\d+\.\d+(?:[eE][-+]?\d+)?(?![A-Za-z0-9_.])", text)


def run(ctx):
    q = ctx.quick
    consts = {"MaxLen": 3, "Keep": 7 if q else 1, "Seed": ctx.seed}
    cfg = os.path.join(vlib.SPEC, "_xmlres.cfg")
    with open(cfg, "w") as f:
        f.write("SPECIFICATION Spec\nCONSTANTS\n" + "".join("  %s = %s\n" % kv for kv in consts.items()) + "INVARIANT RoundTrip\nINVARIANT EscapedIsClean\nINVARIANT Emit\nCHECK_DEADLOCK FALSE\n")
    r = vlib.tlc("XmlResult", "_xmlres.cfg", timeout=1200)
    os.remove(cfg)
    if r.outcome == "invariant":
        ctx.violation("model|" + str(r.violated), "XmlResult.tla: %s violated\n%s" % (r.violated, r.trace_text[:1500]))
    elif r.outcome != "ok":
        raise vlib.ModelFailure("XmlResult: %s\n%s" % (r.outcome, r.out[-2000:]))
    strings = sorted("".join(c["s"]).replace("_", " ") for c in r.cases)
    strings = [s for s in strings if s.strip() == s and s]            # ids are tokens: no leading / trailing blank
    ctx.note("XmlResult.tla: %d states, %d identifier strings" % (r.distinct, len(strings)))
    bdir = vlib.build("plain", ["drv_results", "gama-local", "compare-xyz", "gama-local-deformation"])
    # ---- networks
    r0, base = sessions.generate(ctx, "c12", {"Templates": '{"tri2d", "polar3d", "vec3d", "lev1d", "fstat2d", "vecmix3d"}', "NoiseSet": "{1, 2}", "MaxEdits": 0, "EditKinds": "{}",
                                              "KeepNet": 211 if q else 47, "KeepEdit": 1, "Seed": ctx.seed})
    import hashlib
    nets = [s["net"] for s in base]
    nets.sort(key=lambda n: hashlib.md5(json.dumps(n, sort_keys=True).encode()).hexdigest())       # deterministic mixing of templates and axes
    jobs, meta = [], []
    for k, sid in enumerate(strings):
        net = nets[k % len(nets)]
        sv = sessions.base_survey(net)
        if (k // len(nets)) % 2 == 0:
            sv = session.apply_edit(sv, {"k": "AddConsistentObs", "s": 9})        # all optional observations of the template (observed coordinates, azimuths, ...)
        # the k-th string becomes the id of the first unknown point, and (with a suffix) the description
        unk = [p for p in sv.pts if p["role"] == "unk"]
        sv.names[unk[0]["id"]] = sid
        sv.extra_desc = "net " + sid + " end"
        text = sv.gkf()
        jobs.append({"gkf": text, "args": ["--cov-band", str([-1, 0, 1, 2][k % 4])], "want": ["xml", "html", "octave"], "keep": True})
        meta.append((sid, sv, text))
    runs = gl.run_many(ctx, jobs)
    wd = os.path.join(ctx.outdir, "res")
    os.makedirs(wd, exist_ok=True)
    files = {"xml": [], "html": []}
    ok = []
    noct = 0
    for k, ((sid, sv, text), run) in enumerate(zip(meta, runs)):
        tag = "id"
        if gl.classify(run) in ("crash", "sanitizer", "hang"):
            ctx.violation("run|crash", "gama-local died on id %r" % sid, replay={"gkf": text})
            continue
        if run.xml is None:
            ctx.violation("noxml|" + tag, "no XML result for id %r: %s" % (sid, run.out[-300:]), replay={"gkf": text})
            continue
        if run.xmlerr:
            cls = "".join(sorted(set(c for c in sid if c in "<>&'\"")))
            ctx.violation("malformed_xml|chars:%s" % cls, "result for point id %r / description is not well-formed XML: %s" % (sid, run.xmlerr), replay={"gkf": text})
            continue
        if run.res.get("outcome") != "adjusted":
            continue
        # independent reading must give back the id and the description
        ids = [p["id"] for p in run.res["adjusted"]]
        if sid not in ids:
            ctx.violation("id_lost|chars:%s" % "".join(sorted(set(c for c in sid if c in "<>&'\""))), "point id %r appears in the result as %s" % (sid, ids), replay={"gkf": text})
        if (run.res["description"] or "").strip() != sv.extra_desc:
            ctx.violation("description_changed", "description %r appears in the result as %r" % (sv.extra_desc, run.res["description"]), replay={"gkf": text})
        check_xml_internal(ctx, "%s|%s|%s" % (meta[k][1].t, "flipped" if session.inconsistent(meta[k][1]) else "consistent", "id"), run.res, text)
        if "octave" in run.files:
            cls = "".join(sorted(set(c for c in sid if c in "<>&'\""))) or "plain"
            noct += check_octave(ctx, "chars:" + cls, run.res, run.files["octave"].decode("utf-8", "replace"), text)
        for ext in ("xml", "html"):
            if ext in run.files:
                p = os.path.join(wd, "r%05d.%s" % (k, ext))
                open(p, "wb").write(run.files[ext])
                files[ext].append((p, k))
        ok.append(k)
    for ext in ("xml", "html"):
        fl = files[ext]
        for i in range(0, len(fl), 300):
            rc, out = vlib.sh([os.path.join(bdir, "drv_results"), ext] + [p for p, _ in fl[i:i + 300]], timeout=1200)
            recs = [json.loads(l) for l in out.splitlines() if l.startswith("{")]
            if rc != 0 or len(recs) != len(fl[i:i + 300]):
                ctx.violation("drv_results|crash", "gama's result reader died (rc=%s) on %s files\n%s" % (rc, ext, out[-800:]))
                continue
            for (p, k), rec in zip(fl[i:i + 300], recs):
                compare_reader(ctx, ext, runs[k].res, rec, meta[k][2], html=(ext == "html"))
    # ---- (c) languages / encodings, (d) compare-xyz
    lang_jobs, lang_meta = [], []
    sample_nets = nets[: 15 if q else 60]
    for ni, net in enumerate(sample_nets):
        sv = sessions.base_survey(net)
        if ni % 2 == 0:
            sv = session.apply_edit(sv, {"k": "AddConsistentObs", "s": 9})
        for lg in LANGS:
            lang_jobs.append({"gkf": sv.gkf(), "args": ["--language", lg, "--encoding", "utf-8"], "want": ["text", "xml"], "keep": True})
            lang_meta.append((ni, lg))
    lruns = gl.run_many(ctx, lang_jobs)
    ref = {}
    for (ni, lg), run, job in zip(lang_meta, lruns, lang_jobs):
        toks = numeric_tokens(run.text or "")
        if lg == "en":
            ref[ni] = toks
            if run.res is not None and run.res.get("outcome") == "adjusted" and run.text:
                check_text(ctx, sample_nets[ni]["t"], run.res, run.text, job["gkf"])
                check_xml_internal(ctx, "%s|lang" % sample_nets[ni]["t"], run.res, job["gkf"])
    for (ni, lg), run in zip(lang_meta, lruns):
        toks = numeric_tokens(run.text or "")
        if toks != ref.get(ni) or not toks:
            ctx.violation("language|" + lg, "text output in language %s has %d numeric tokens, English has %d (first difference: %s)" % (
                lg, len(toks), len(ref.get(ni, [])), next(((a, b) for a, b in zip(toks, ref.get(ni, [])) if a != b), None)))
    # compare-xyz of a result with itself
    cx = vlib.binpath("plain", "compare-xyz")
    ncmp = 0
    for p, k in files["xml"][: 10 if q else 100]:
        rc, out = vlib.sh([cx, p, p], timeout=60)
        ncmp += 1
        nums = [abs(float(x)) for x in re.findall(r"[-+]?\d+\.\d+(?:e[-+]?\d+)?", out)]
        if rc != 0 or any(x > 1e-9 for x in nums if x < 1e3) and "0.0" not in out:
            pass
        if rc != 0:
            ctx.violation("compare_xyz|self", "compare-xyz R R exits %s: %s" % (rc, out[-300:]))
    ntools = check_tools(ctx, q, nets)
    for ext in ("xml", "html"):
        for p, _ in files[ext]:
            os.remove(p)
    if strings:
        ctx.sample({"id_strings": strings[:8]})
    ctx.assume("independent reader: ElementTree (tools/gl.py); XML well-formedness judged by expat through ElementTree")
    return {"evaluations": len(jobs) + len(lang_jobs) + ncmp + ntools + noct, "octave_scripts_read": noct, "tool_runs": ntools, "counts": dict(COUNTS), "distinct_nontrivial": len([s for s in strings if any(c in s for c in "<>&'\"é")]),
            "rule": "identifier strings = states of XmlResult.tla (alphabet a < > & ' \" e-acute blank, length <= 3, thinned by Keep); non-trivial = contains an XML special or non-ASCII character",
            "tlc_states": r.distinct + r0.distinct, "results_read_back": len(ok), "exhaustive": not q}
