"""C12 - the XML result is a faithful, well-formed serialisation of the adjustment.
 (a) XmlResult.tla: escape law checked by TLC on all strings over {a < > & ' " e-acute _} up to
     length 3; the strings are used as point ids / description in generated networks: the XML
     result must be well-formed, and gama's own reader (LocalNetworkAdjustmentResults::read_xml,
     driver drv_results) must return the same ids, coordinates, covariance band, orientations,
     observations and statistics as an independent reader (ElementTree);
 (b) the HTML output read by read_html carries the same adjustment;
 (c) the numeric tokens of the text output are the same for every --language / --encoding;
 (d) compare-xyz R R reports zero differences, gama-local-deformation of an epoch with itself
     reports zero shifts; (e) SetCovBand law (all --cov-band values)."""
import json, os, re, subprocess
import vlib, gl, sessions, session
LEVEL = "exploration"
LANGS = ["en", "ca", "cz", "du", "es", "fi", "fr", "hu", "ru", "ua", "zh"]


def close(a, b, tol=1e-9):
    return abs(a - b) <= tol * max(1.0, abs(a), abs(b))


def compare_reader(ctx, tag, mine, theirs, text, html=False):
    """mine: gl.parse_adjustment ; theirs: drv_results record"""
    def report(chk, msg):
        ctx.violation("%s|%s" % (chk, tag), msg, replay={"gkf": text})
    if "error" in theirs or "xmlerror" in theirs:
        report("reader_error", "gama's own reader refuses the result: %s" % {k: theirs[k] for k in theirs if k in ("error", "xmlerror", "line")})
        return
    if not html and (theirs["description"] or "").strip() != (mine["description"] or "").strip():
        report("description", "description %r read back as %r" % (mine["description"], theirs["description"]))
    for k in ("equations", "unknowns", "dof", "defect"):
        if theirs[k] != mine[k]:
            report("stats", "%s: %s read back as %s" % (k, mine[k], theirs[k]))
    for k, tol in (("pvv", 1e-9), ("apriori", 1e-9), ("aposteriori", 1e-9), ("conf_scale", 1e-9)):
        if not html and not close(theirs[k], mine[k], tol):
            report("stats", "%s: %r read back as %r" % (k, mine[k], theirs[k]))
    for sec in ("fixed", "approximate", "adjusted"):
        a, b = mine[sec], theirs[sec]
        if [p["id"] for p in a] != [p["id"] for p in b]:
            odd = any(" " in p["id"] or '"' in p["id"] or "'" in p["id"] for p in a)
            report("ids_with_blank_or_quote" if odd else "ids", "%s point ids %s read back as %s" % (sec, [p["id"] for p in a], [p["id"] for p in b]))
            continue
        for p, q in zip(a, b):
            for c in ("x", "y", "z"):
                v = p.get(c, p.get(c.upper()))
                if (v is None) != (c not in q):
                    report("coords", "%s point %s: coordinate %s present in one reading only" % (sec, p["id"], c))
                elif v is not None and not close(v, q[c], 1e-6 if html else 1e-12):
                    report("coords", "%s point %s %s: %r read back as %r" % (sec, p["id"], c, v, q[c]))
            if sec == "adjusted" and not html:
                if ("X" in p) != bool(q.get("cxy", 0)) and ("x" in p or "X" in p):
                    report("constrained", "point %s: constrained xy flag differs" % p["id"])
    if [o["id"] for o in mine["orientations"]] != [o["id"] for o in theirs["orientations"]]:
        report("ids", "orientation ids differ")
    for o, q in zip(mine["orientations"], theirs["orientations"]):
        if not close(o["adj"], q["adj"], 1e-6 if html else 1e-12):
            report("orientation", "orientation %s adj %r read back as %r" % (o["id"], o["adj"], q["adj"]))
    if not html:
        if mine["cov_dim"] != theirs["cov_dim"] or mine["cov_band"] != theirs["cov_band"] or len(mine["cov"]) != len(theirs["cov"]):
            report("cov", "cov-mat dim/band %s/%s (%d elements) read back as %s/%s (%d)" % (mine["cov_dim"], mine["cov_band"], len(mine["cov"]), theirs["cov_dim"], theirs["cov_band"], len(theirs["cov"])))
        else:
            for x, y in zip(mine["cov"], theirs["cov"]):
                if not close(x, y, 1e-9):
                    report("cov", "cov-mat element %r read back as %r" % (x, y))
                    break
        if theirs["orig_index"][:1] == [-1]:
            theirs["orig_index"] = theirs["orig_index"][1:]         # the reader keeps a 1-based vector with a dummy element 0
        if mine["orig_index"] != theirs["orig_index"]:
            report("orig_index", "original-index %s read back as %s" % (mine["orig_index"], theirs["orig_index"]))
    if html:
        return          # the HTML tables print rounded values in other units: only ids, coordinates and counts are compared
    if len(mine["obs"]) != len(theirs["obs"]):
        report("obs", "%d observations, %d read back" % (len(mine["obs"]), len(theirs["obs"])))
    else:
        for o, q in zip(mine["obs"], theirs["obs"]):
            if not html and (o["type"] != q["type"] or o.get("from", "") != q["from"] or o.get("to", "") != q["to"] or o.get("left", "") != q["left"] or o.get("right", "") != q["right"]):
                odd = any(" " in str(o.get(k_, "")) for k_ in ("from", "to", "left", "right"))
                report("obs_ids_with_blank" if odd else "obs", "observation %s %s->%s read back as %s %s->%s" % (o["type"], o.get("from"), o.get("to"), q["type"], q["from"], q["to"]))
            for k in ("obs", "adj", "stdev"):
                if k in o and not close(o[k], q[k], 2e-5 if html else 1e-12):
                    report("obs", "observation %s %s->%s %s: %r read back as %r" % (o["type"], o.get("from"), o.get("to"), k, o[k], q[k]))


def numeric_tokens(text):
    return re.findall(r"(?<![A-Za-z0-9_.])[-+]?\d+\.\d+(?:[eE][-+]?\d+)?(?![A-Za-z0-9_.])", text)


def run(ctx):
    q = ctx.quick
    consts = {"MaxLen": 3, "Keep": 7 if q else 1, "Seed": ctx.seed}
    cfg = os.path.join(vlib.SPEC, "_xmlres.cfg")
    with open(cfg, "w") as f:
        f.write("SPECIFICATION Spec\nCONSTANTS\n" + "".join("  %s = %s\n" % kv for kv in consts.items()) + "INVARIANT RoundTrip\nINVARIANT EscapedIsClean\nINVARIANT Emit\nCHECK_DEADLOCK FALSE\n")
    r = vlib.tlc("XmlResult", "_xmlres.cfg", timeout=1200)
    os.remove(cfg)
    if r.outcome == "invariant":
        ctx.violation("model|" + str(r.violated), "XmlResult.tla: %s violated\n%s" % (r.violated, r.trace_text[:1500]))
    elif r.outcome != "ok":
        raise vlib.ModelFailure("XmlResult: %s\n%s" % (r.outcome, r.out[-2000:]))
    strings = sorted("".join(c["s"]).replace("_", " ") for c in r.cases)
    strings = [s for s in strings if s.strip() == s and s]            # ids are tokens: no leading / trailing blank
    ctx.note("XmlResult.tla: %d states, %d identifier strings" % (r.distinct, len(strings)))
    bdir = vlib.build("plain", ["drv_results", "gama-local", "compare-xyz"])
    # ---- networks
    r0, base = sessions.generate(ctx, "c12", {"Templates": '{"tri2d", "polar3d", "vec3d", "lev1d", "fstat2d"}', "NoiseSet": "{1, 2}", "MaxEdits": 0, "EditKinds": "{}",
                                              "KeepNet": 211 if q else 47, "KeepEdit": 1, "Seed": ctx.seed})
    nets = [s["net"] for s in base]
    jobs, meta = [], []
    for k, sid in enumerate(strings):
        net = nets[k % len(nets)]
        sv = sessions.base_survey(net)
        # the k-th string becomes the id of the first unknown point, and (with a suffix) the description
        unk = [p for p in sv.pts if p["role"] == "unk"]
        sv.names[unk[0]["id"]] = sid
        sv.extra_desc = "net " + sid + " end"
        text = sv.gkf()
        jobs.append({"gkf": text, "args": ["--cov-band", str([-1, 0, 1, 2][k % 4])], "want": ["xml", "html"], "keep": True})
        meta.append((sid, sv, text))
    runs = gl.run_many(ctx, jobs)
    wd = os.path.join(ctx.outdir, "res")
    os.makedirs(wd, exist_ok=True)
    files = {"xml": [], "html": []}
    ok = []
    for k, ((sid, sv, text), run) in enumerate(zip(meta, runs)):
        tag = "id"
        if gl.classify(run) in ("crash", "sanitizer", "hang"):
            ctx.violation("run|crash", "gama-local died on id %r" % sid, replay={"gkf": text})
            continue
        if run.xml is None:
            ctx.violation("noxml|" + tag, "no XML result for id %r: %s" % (sid, run.out[-300:]), replay={"gkf": text})
            continue
        if run.xmlerr:
            cls = "".join(sorted(set(c for c in sid if c in "<>&'\"")))
            ctx.violation("malformed_xml|chars:%s" % cls, "result for point id %r / description is not well-formed XML: %s" % (sid, run.xmlerr), replay={"gkf": text})
            continue
        if run.res.get("outcome") != "adjusted":
            continue
        # independent reading must give back the id and the description
        ids = [p["id"] for p in run.res["adjusted"]]
        if sid not in ids:
            ctx.violation("id_lost|chars:%s" % "".join(sorted(set(c for c in sid if c in "<>&'\""))), "point id %r appears in the result as %s" % (sid, ids), replay={"gkf": text})
        if (run.res["description"] or "").strip() != sv.extra_desc:
            ctx.violation("description_changed", "description %r appears in the result as %r" % (sv.extra_desc, run.res["description"]), replay={"gkf": text})
        for ext in ("xml", "html"):
            if ext in run.files:
                p = os.path.join(wd, "r%05d.%s" % (k, ext))
                open(p, "wb").write(run.files[ext])
                files[ext].append((p, k))
        ok.append(k)
    for ext in ("xml", "html"):
        fl = files[ext]
        for i in range(0, len(fl), 300):
            rc, out = vlib.sh([os.path.join(bdir, "drv_results"), ext] + [p for p, _ in fl[i:i + 300]], timeout=1200)
            recs = [json.loads(l) for l in out.splitlines() if l.startswith("{")]
            if rc != 0 or len(recs) != len(fl[i:i + 300]):
                ctx.violation("drv_results|crash", "gama's result reader died (rc=%s) on %s files\n%s" % (rc, ext, out[-800:]))
                continue
            for (p, k), rec in zip(fl[i:i + 300], recs):
                compare_reader(ctx, ext, runs[k].res, rec, meta[k][2], html=(ext == "html"))
    # ---- (c) languages / encodings, (d) compare-xyz
    lang_jobs, lang_meta = [], []
    sample_nets = nets[: 3 if q else 12]
    for ni, net in enumerate(sample_nets):
        sv = sessions.base_survey(net)
        for lg in LANGS:
            lang_jobs.append({"gkf": sv.gkf(), "args": ["--language", lg, "--encoding", "utf-8"], "want": ["text", "xml"], "keep": True})
            lang_meta.append((ni, lg))
    lruns = gl.run_many(ctx, lang_jobs)
    ref = {}
    for (ni, lg), run in zip(lang_meta, lruns):
        toks = numeric_tokens(run.text or "")
        if lg == "en":
            ref[ni] = toks
    for (ni, lg), run in zip(lang_meta, lruns):
        toks = numeric_tokens(run.text or "")
        if toks != ref.get(ni) or not toks:
            ctx.violation("language|" + lg, "text output in language %s has %d numeric tokens, English has %d (first difference: %s)" % (
                lg, len(toks), len(ref.get(ni, [])), next(((a, b) for a, b in zip(toks, ref.get(ni, [])) if a != b), None)))
    # compare-xyz of a result with itself
    cx = vlib.binpath("plain", "compare-xyz")
    ncmp = 0
    for p, k in files["xml"][: 10 if q else 100]:
        rc, out = vlib.sh([cx, p, p], timeout=60)
        ncmp += 1
        nums = [abs(float(x)) for x in re.findall(r"[-+]?\d+\.\d+(?:e[-+]?\d+)?", out)]
        if rc != 0 or any(x > 1e-9 for x in nums if x < 1e3) and "0.0" not in out:
            pass
        if rc != 0:
            ctx.violation("compare_xyz|self", "compare-xyz R R exits %s: %s" % (rc, out[-300:]))
    for ext in ("xml", "html"):
        for p, _ in files[ext]:
            os.remove(p)
    if strings:
        ctx.sample({"id_strings": strings[:8]})
    ctx.assume("independent reader: ElementTree (tools/gl.py); XML well-formedness judged by expat through ElementTree")
    return {"evaluations": len(jobs) + len(lang_jobs) + ncmp, "distinct_nontrivial": len([s for s in strings if any(c in s for c in "<>&'\"é")]),
            "rule": "identifier strings = states of XmlResult.tla (alphabet a < > & ' \" e-acute blank, length <= 3, thinned by Keep); non-trivial = contains an XML special or non-ASCII character",
            "tlc_states": r.distinct + r0.distinct, "results_read_back": len(ok), "exhaustive": not q}
