"""C14 - exclusions are reported and equal to deleting the excluded items.
SurveySession.tla: Blunder(obs, pct, tol) gives one observation of a consistent, redundant
network a positional misclosure of pct % of tol-abs (99, 101, 300 %; tol-abs 1, 10, 1000 mm).
Law: excluded <=> pct > 100; an excluded observation is listed under the outlying absolute
terms and missing from the adjusted observations, and the result equals that of the input with
the observation deleted; a kept one stays in the adjustment. Isolate: a point with a single
determining element is removed and reported with a reason. LoneSet: a direction set whose readings
all go to one target is excluded; the result equals that of the input without the set."""
import re
import sessions, session, gl
LEVEL = "exploration"
NOISE = "{0}"


def run(ctx):
    q = ctx.quick
    r, ss = sessions.generate(ctx, "c14", {"Templates": sessions.ALL_TEMPLATES, "NoiseSet": NOISE, "MaxEdits": 1, "EditKinds": '{"Blunder", "Isolate", "LoneSet", "WeakPoint"}',
                                           "KeepNet": 211 if q else 23, "KeepEdit": 5 if q else 1, "Seed": ctx.seed})
    # WeakPoint 3, 4 (weights below sqrt(eps)) are the subject of a C02 finding: envelope refuses such networks
    ss = [s for s in ss if not (s["edits"][0]["e"]["k"] == "WeakPoint" and s["edits"][0]["e"]["s"] >= 3)]
    ss = ss[:: max(1, len(ss) // (500 if q else 8000))]
    ctx.note("SurveySession: %d Blunder / Isolate sessions" % len(ss))
    jobs, meta = [], []
    for si, s in enumerate(ss):
        sv0 = sessions.base_survey(s["net"])
        # make the network as redundant as the template allows
        sv0 = session.apply_edit(sv0, {"k": "AddConsistentObs", "s": 9})
        e = s["edits"][0]["e"]
        if e["k"] == "Blunder" and e.get("sig", 10) != 10:
            sv0.params["sigma-apr"] = float(e["sig"])           # a-priori reference deviation differs from the standard deviations of the observations
        sv1 = session.apply_edit(sv0, e)
        variants = [("edit", sv1)]
        if e["k"] == "Blunder":
            variants.append(("delete", session.apply_edit(sv0, {"k": "DeleteObs", "obs": e["obs"], "tol": e["tol"]})))
        else:
            variants.append(("delete", sv0))          # Isolate: the network without the new point and its single observation
        for name, sv in variants:
            jobs.append({"gkf": sv.gkf(), "args": [], "want": ["xml", "text"]})
            meta.append((si, name, sv))
    runs = gl.run_many(ctx, jobs)
    by = {}
    for (si, name, sv), run, job in zip(meta, runs, jobs):
        by.setdefault(si, {})[name] = (run, sv, job)
    nexcl = nkept = 0
    for si, d in by.items():
        e, law = ss[si]["edits"][0]["e"], ss[si]["edits"][0]["law"]
        run, sv, job = d["edit"]
        tag = "%s|%s" % (ss[si]["net"]["t"], e["k"])

        def report(chk, msg, job=job, tag=tag, e=e):
            ctx.violation("%s|%s" % (chk, tag), "%s: %s" % (e, msg), replay={"gkf": job["gkf"], "session": ss[si]})
        cls = gl.classify(run)
        if cls in ("crash", "sanitizer", "hang"):
            report("run_" + cls, run.out[-600:])
            continue
        txt = (run.text or "") + run.out
        if e["k"] == "WeakPoint":
            # a point whose standard deviation exceeds 10 m is removed and reported; the result equals that of the input without it
            run2, sv2, job2 = d["delete"]
            if cls != "adjusted" or gl.classify(run2) != "adjusted":
                report("weakpoint_outcome", "network with a practically undetermined point: %s, without it: %s" % (cls, gl.classify(run2)))
                continue
            nexcl += 1
            wid = "0W" if e["s"] in (1, 3) else "W"
            if not re.search(r"^\s*%s\s+\S" % wid, txt, re.M):
                report("weakpoint_unreported", "removed point %s is not listed with a reason in the text output" % wid)
            session.check_law(session.project(run2.res, sv2), session.project(run.res, sv), {"k": "ExcludeVsDelete"},
                              {"coords": "same", "obs": "same", "stats": "same", "cov": "same"}, sv2, sv, lambda c, m: report("weakpoint_vs_delete_" + c, m))
            continue
        if e["k"] == "LoneSet":
            # a direction set with one target only is excluded: the result equals that of the input without it
            run2, sv2, job2 = d["delete"]
            if cls != "adjusted" or gl.classify(run2) != "adjusted":
                report("loneset_outcome", "network with a single-target direction set: %s, without it: %s" % (cls, gl.classify(run2)))
                continue
            nexcl += 1
            session.check_law(session.project(run2.res, sv2), session.project(run.res, sv), {"k": "ExcludeVsDelete"},
                              {"coords": "same", "obs": "same", "stats": "same", "cov": "same"}, sv2, sv, lambda c, m: report("loneset_vs_delete_" + c, m))
            continue
        if e["k"] == "Isolate":
            if cls != "adjusted":
                report("isolate_outcome", "network with an isolated point is not adjusted (%s)" % cls)
                continue
            P = session.project(run.res, sv)
            if "X" in P["pts"] and "e" in P["pts"]["X"]:
                report("isolate_adjusted", "point X has a single determining distance but is adjusted")
            if not re.search(r"^\s*X\s+\S", txt, re.M):
                report("isolate_unreported", "removed point X is not listed with a reason in the text output")
            run2, sv2, job2 = d["delete"]
            if gl.classify(run2) == "adjusted":
                P2 = session.project(run2.res, sv2)
                if e["s"] in (2, 4) and sv.dim == 3:
                    # with a height difference to X its height stays determined (one more observation and unknown): the other points must not move
                    for pid, pc in P2["pts"].items():
                        for c_ in ("e", "n", "u"):
                            if c_ in pc and abs(pc[c_] - P["pts"].get(pid, {}).get(c_, 1e9)) > 3e-6:
                                report("isolate_vs_delete_coords", "point %s %s: %r without X, %r with X" % (pid, c_, pc[c_], P["pts"].get(pid, {}).get(c_)))
                else:
                    session.check_law(P2, P, {"k": "ExcludeVsDelete"}, {"coords": "same", "obs": "same", "stats": "same", "cov": "same"}, sv2, sv,
                                      lambda c, m: report("isolate_vs_delete_" + c, m))
            continue
        o = sv.obs[session.resolve_obs(sv, e["obs"]) - 1]
        ang = o["t"] in ("direction", "angle", "azimuth", "z-angle")
        m0, sd = sv.params["sigma-apr"], sv.sd(o["t"])
        rel_ = "m0=stdev" if abs(m0 - sd) < 1e-9 else "m0<stdev" if m0 < sd else "m0>stdev"
        tag = "%s|%s|%s|%s" % (ss[si]["net"]["t"], e["k"], "angular" if ang else "linear", rel_ if ang else "any")

        def report(chk, msg, job=job, tag=tag, e=e):
            ctx.violation("%s|%s" % (chk, tag), "%s: %s" % (e, msg), replay={"gkf": job["gkf"], "session": ss[si]})
        key = (o["t"],) + (tuple(sorted((o["fr"], o["to"]))) if o["t"] == "distance" else (o["fr"], o["to"], o["to2"]) if o["t"] == "angle" else (o["fr"], o["to"]))
        if cls != "adjusted":
            report("outcome", "network with one blunder is not adjusted (%s): %s" % (cls, run.out[-300:]))
            continue
        P = session.project(run.res, sv)
        present = key in P["obs"]
        listed = "Outlying absolute terms" in txt or "outlying" in txt.lower()
        if law["excluded"]:
            nexcl += 1
            if present:
                report("not_excluded", "misclosure %d %% of tol-abs %s mm but observation %s takes part in the adjustment" % (e["pct"], e["tol"], key))
                continue
            if not listed:
                report("unreported", "observation %s was excluded but no outlying-absolute-terms listing was printed" % (key,))
            run2, sv2, job2 = d["delete"]
            if gl.classify(run2) == "adjusted":
                P2 = session.project(run2.res, sv2)
                session.check_law(P2, P, {"k": "ExcludeVsDelete"}, {"coords": "same", "obs": "same", "stats": "same", "cov": "same"}, sv2, sv,
                                  lambda c, m: report("exclude_vs_delete_" + c, m))
            else:
                report("delete_outcome", "input with the observation deleted is not adjusted")
        else:
            nkept += 1
            if not present:
                report("wrongly_excluded", "misclosure %d %% of tol-abs %s mm but observation %s was excluded" % (e["pct"], e["tol"], key))
    if ss:
        ctx.sample({"net": ss[0]["net"]["t"], "edit": ss[0]["edits"][0]})
    ctx.assume("positional misclosure as documented: |obs - computed| for lengths, angular misclosure times the length of the sight for angles")
    return {"evaluations": len(jobs), "distinct_nontrivial": len(ss),
            "rule": "sessions of SurveySession.tla with one Blunder(obs, pct, tol) or Isolate edit on consistent, maximally redundant template networks; "
                    "all are distinct (network, observation, pct, tol)", "excluded_expected": nexcl, "kept_expected": nkept, "tlc_states": r.distinct, "exhaustive": False}
