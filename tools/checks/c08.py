"""C08 - choice of datum in a free network changes only the datum.
 (a) API: LsqCases singular problems with every admissible subset S: G_S' x_S = 0 (the
     corrections of the selected unknowns are orthogonal to the null space = minimal norm) and
     residuals / sum of squares independent of S (checked through C01's certificate);
 (b) SurveySession: free 2-D network, ChangeDatum(S) for S in the admissible constraint sets:
     residuals, sum of squares, dof, adjusted observations and their sigmas, inter-point
     distances equal; corrections of the constrained coordinates sum to zero (translations)
     and have zero moment (rotation, when no azimuth fixes it)."""
import math
import lsq, sessions, session
LEVEL = "exploration"
NOISE = "{1, 2, 3}"


def datum_laws(P, sv, report):
    if P.get("outcome") != "adjusted":
        return
    con = [p for p in sv.pts if p["con"]]
    if not con:
        return
    if sv.dim in (1, 3):
        du = [P["pts"][p["id"]]["u"] - p["u"] for p in con if p["id"] in P["pts"] and "u" in P["pts"][p["id"]]]
        if abs(sum(du)) > 5e-6:
            report("datum_translation", "height corrections of constrained points do not sum to zero: sum dU = %g" % sum(du))
    if sv.dim == 1:
        return
    de = [P["pts"][p["id"]]["e"] - p["e"] for p in con if p["id"] in P["pts"]]
    dn = [P["pts"][p["id"]]["n"] - p["n"] for p in con if p["id"] in P["pts"]]
    if abs(sum(de)) > 5e-6 or abs(sum(dn)) > 5e-6:
        report("datum_translation", "corrections of constrained points do not sum to zero: sum dE = %g, sum dN = %g" % (sum(de), sum(dn)))
    if sv.t == "free2d" and not any(o["t"] == "azimuth" for o in sv.obs):
        ce = sum(p["e"] for p in con) / len(con)
        cn = sum(p["n"] for p in con) / len(con)
        mom = sum(-(p["n"] - cn) * a + (p["e"] - ce) * b for p, a, b in zip(con, de, dn))
        if abs(mom) > 2e-3:       # m^2; corrections are ~mm, arms ~300 m
            report("datum_rotation", "corrections of constrained points have a rotational component: moment %g m^2" % mom)


def run(ctx):
    q = ctx.quick
    a = lsq.api_check(ctx, "C01:minnorm")
    r, ss = sessions.generate(ctx, "c08", {"Templates": '{"free2d", "freevec3d", "freelev1d"}', "NoiseSet": NOISE, "MaxEdits": 2, "EditKinds": '{"ChangeDatum", "SetAlgorithm"}',
                                           "KeepNet": 47 if q else 7, "KeepEdit": 2 if q else 1, "Seed": ctx.seed})
    ss = [s for s in ss if any(e["e"]["k"] == "ChangeDatum" for e in s["edits"])]
    ss = ss[:: max(1, len(ss) // (2500 if q else 20000))]
    ctx.note("SurveySession: %d datum sessions on the free network" % len(ss))

    def each(res, sv, report):
        datum_laws(session.project(res, sv), sv, report)
    st, proj, steps = sessions.run_sessions(ctx, ss, truth=False, laws=True, each=each)
    # inter-point distances and datum law: compare consecutive steps
    for (si, k, sv, e, law) in steps:
        if e is None or e["k"] != "ChangeDatum":
            continue
        A, B = proj.get((si, k - 1)), proj.get((si, k))
        if not A or not B or A.get("outcome") != "adjusted" or B.get("outcome") != "adjusted":
            continue
        ids = sorted(A["pts"])
        for i in range(len(ids)):
            for j in range(i + 1, len(ids)):
                da = math.sqrt(sum((A["pts"][ids[i]].get(c, 0.0) - A["pts"][ids[j]].get(c, 0.0)) ** 2 for c in "enu"))
                db = math.sqrt(sum((B["pts"][ids[i]].get(c, 0.0) - B["pts"][ids[j]].get(c, 0.0)) ** 2 for c in "enu"))
                if abs(da - db) > 5e-6:
                    ctx.violation("datum_shape|" + sv.t, "session %d: distance %s-%s between adjusted points changes with the datum: %.7f -> %.7f" % (si, ids[i], ids[j], da, db),
                                  replay={"session": ss[si]})
    if ss:
        ctx.sample({"net": {k: ss[0]["net"][k] for k in ("t", "axes", "noise")}, "edits": [e["e"] for e in ss[0]["edits"]]})
    ctx.assume("orthogonality to the datum transformations is asserted to 5e-6 m (translations) on the final, re-linearised solution")
    return {"evaluations": a["cases"] * 8 + st["runs"], "distinct_nontrivial": a["nontrivial"] + len(ss),
            "rule": "API: singular LsqCases problems with every admissible subset; network: ChangeDatum sessions on the free 2-D template "
                    "(constraint sets AB, CD, ACD, ABCD, AD) in all axes conventions",
            "api_checks_evaluated": a["nchecks"], "law_checks": st["law_checks"], "tlc_states": a["tlc_states"] + r.distinct, "exhaustive": False}
