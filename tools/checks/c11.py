"""C11 - any input is adjusted or refused with a located diagnostic, safely.
 (1) TLC model-checks the product GkfGrammar x GkfParserModel (spec/GkfModel.tla): Inclusion,
     ErrorHasLine, ErrorAbsorbing, Completeness, Exactness (only named liberal deviations);
 (2) direction A: every (thinned) complete or rejected event sequence of the model is
     materialised as a document and run through gama-local built with ASan+UBSan; the outcome
     (accepted / rejected at line L with a message) must be the model's;
 (3) mutation / truncation sweeps of the repository's inputs (positions and replacement
     classes enumerated deterministically from the seed): terminates, no sanitizer report,
     and a refusal names a line within the document."""
import os, random
import vlib, gl, gkfdocs
LEVEL = "model_checking"


def parser_outcome(run):
    """('accepted'|'rejected', line, message)"""
    if run.res is not None and run.res.get("outcome") == "error" and run.res.get("error_category") == "gamaLocalParserError":
        import re
        m = re.search(r"<lineNumber>(-?\d+)</lineNumber>", run.xml or "")
        msgs = run.res.get("error", [])
        return "rejected", int(m.group(1)) if m else None, (msgs[1] if len(msgs) > 1 else "")
    return "accepted", None, ""


def run(ctx):
    cov = {}
    consts = {"MaxEvents": 9 if ctx.quick else 10, "MaxOpenInLeaf": 1, "Keep": 211 if ctx.quick else 97, "Seed": ctx.seed}
    cfg = os.path.join(vlib.SPEC, "_gkf_C11.cfg")
    with open(cfg, "w") as f:
        f.write("SPECIFICATION Spec\nCONSTANTS\n" + "".join("  %s = %s\n" % kv for kv in consts.items()) +
                "INVARIANT Inclusion\nINVARIANT ErrorHasLine\nINVARIANT StopOnlyAtEnd\nINVARIANT Completeness\nINVARIANT Exactness\n"
                "INVARIANT EmitDoc\nPROPERTY ErrorAbsorbing\nCHECK_DEADLOCK FALSE\n")
    r = vlib.tlc("GkfModel", "_gkf_C11.cfg", timeout=2400)
    os.remove(cfg)
    if r.outcome in ("invariant", "property"):
        ctx.violation("model|" + str(r.violated), "TLC: %s violated in GkfModel\n%s" % (r.violated, r.trace_text[:3000]))
    elif r.outcome != "ok":
        raise vlib.ModelFailure("GkfModel: %s\n%s" % (r.outcome, r.out[-2500:]))
    ctx.note("GkfModel: %d states, %d documents emitted in %.1fs" % (r.distinct, len(r.cases), r.wall))
    vlib.build("asan", ["gama-local"])
    docs = r.cases
    jobs, meta = [], []
    for d in docs:
        text, ev_line = gkfdocs.materialise(d["events"])
        jobs.append({"gkf": text, "kind": "asan", "want": ["xml"], "timeout": 60})
        meta.append((d, text, ev_line))
    runs = gl.run_many(ctx, jobs)
    nacc = nrej = 0
    for (d, text, ev_line), run in zip(meta, runs):
        cls = gl.classify(run)
        if cls in ("crash", "sanitizer", "hang"):
            ctx.violation("doc|" + cls, "generated document makes gama-local %s (rc=%s)\n%s\n%s" % (cls, run.rc, text, run.out[-1500:]), replay={"gkf": text})
            continue
        got, line, msg = parser_outcome(run)
        if d["accepted"]:
            nacc += 1
            if got != "accepted":
                ctx.violation("doc|accepted-by-model-rejected-by-parser", "model accepts, gama-local refuses at line %s (%s):\n%s" % (line, msg, text), replay={"gkf": text, "model": d})
        else:
            nrej += 1
            exp = ev_line[d["errAt"]]
            if got != "rejected":
                ctx.violation("doc|rejected-by-model-accepted-by-parser", "model refuses at line %d, gama-local accepts:\n%s" % (exp, text), replay={"gkf": text, "model": d})
            elif line != exp or not msg.strip():
                ctx.violation("doc|line", "refused at line %s with message %r, model expects line %d:\n%s" % (line, msg, exp, text), replay={"gkf": text, "model": d})
    if meta:
        ctx.sample({"events": meta[len(meta) // 2][0]["events"], "expected": {k: meta[len(meta) // 2][0][k] for k in ("accepted", "errAt")},
                    "document": meta[len(meta) // 2][1]})
    # ---- (2b) cluster sequences (spec/GkfClusters.tla): per-cluster verdicts, no influence between neighbours
    cl = cluster_docs(ctx)
    cov["cluster_documents"] = cl
    # ---- (2c) attribute level (spec/GkfAttrs.tla)
    cov["attribute_documents"] = attr_docs(ctx)
    # ---- (2d) chunked delivery at every split point
    cov["chunked_delivery"] = chunked(ctx, docs)
    # ---- (3) mutation / truncation sweep of repository inputs
    mut = mutation_sweep(ctx)
    cov["other_parsers"] = other_parsers_sweep(ctx)
    # ---- (4) DataParser (gama-g3 input and results, adj-input-data): control table extracted from the sources, model checked,
    #          every transition replayed (spec/G3Parser.tla)
    import g3parser
    cov.update(g3parser.run(ctx, 2500 if ctx.quick else 0))
    cov.update({"states": r.distinct, "transitions": r.generated, "traces_validated_against_impl": len(docs),
                "documents_accepted_by_model": nacc, "documents_rejected_by_model": nrej, "mutation_sweep": mut,
                "exhaustive": True, "model_constants": consts})
    ctx.assume("memory safety and termination are observed by ASan/UBSan and timeouts on specification-generated inputs (trusted observers)")
    ctx.assume("'every byte sequence' is sampled structurally: all event sequences up to the bound + deterministic mutations of repository inputs")
    return cov


ORDER = ["network", "parameters", "pobs", "fixpoint", "point", "obs", "direction", "distance", "angle", "sdistance", "zangle", "azimuth", "dh", "cpoint", "covmat", "vec"]


def attr_docs(ctx):
    consts = {"Keep": 11 if ctx.quick else 1, "Seed": ctx.seed}
    cfg = os.path.join(vlib.SPEC, "_gkfat_%s.cfg" % ctx.pid)
    with open(cfg, "w") as f:
        f.write("SPECIFICATION Spec\nCONSTANTS\n" + "".join("  %s = %s\n" % kv for kv in consts.items()) + "INVARIANT Emit\nINVARIANT Sound\nCHECK_DEADLOCK FALSE\n")
    r = vlib.tlc("GkfAttrs", os.path.basename(cfg), timeout=1200)
    os.remove(cfg)
    if r.outcome == "invariant":
        ctx.violation("model|" + str(r.violated), "TLC: %s violated in GkfAttrs\n%s" % (r.violated, r.trace_text[:2000]))
    elif r.outcome != "ok":
        raise vlib.ModelFailure("GkfAttrs: %s\n%s" % (r.outcome, r.out[-2000:]))
    import json
    cases = sorted(r.cases, key=lambda c: json.dumps(c, sort_keys=True))
    base_text, _ = gkfdocs.attr_doc([])
    jobs = [{"gkf": base_text, "kind": "asan", "want": ["xml"], "timeout": 60}]
    meta = [None]
    for c in cases:
        text, at = gkfdocs.attr_doc(c["muts"])
        jobs.append({"gkf": text, "kind": "asan", "want": ["xml"], "timeout": 60})
        meta.append((c, text, at))
    runs = gl.run_many(ctx, jobs)
    if gl.classify(runs[0]) != "adjusted":
        ctx.violation("attrs|base", "the valid base document is not adjusted: %s\n%s" % (gl.classify(runs[0]), runs[0].out[-800:]), replay={"gkf": base_text})
    st = {"documents": len(cases), "refused_by_model": 0, "states": r.distinct}
    for m, run in zip(meta[1:], runs[1:]):
        c, text, at = m
        what = "+".join("%s.%s:%s" % (x["e"], x["a"], x["w"]) for x in c["muts"])
        first = c["muts"][0] if len(c["muts"]) == 1 else min(c["muts"], key=lambda x: ORDER.index(x["e"]))
        sig = "%s|%s|%s" % (first["e"], first["a"], first["w"])
        cls = gl.classify(run)
        if cls in ("crash", "sanitizer", "hang"):
            ctx.violation("attrs|%s|%s" % (cls, sig), "document with %s makes gama-local %s (rc=%s)\n%s" % (what, cls, run.rc, run.out[-1200:]), replay={"gkf": text})
            continue
        got, line, msg = parser_outcome(run)
        if c["verdict"] == "accepted":
            if got != "accepted" or cls != "adjusted":
                ctx.violation("attrs|valid-refused|" + sig, "%s leaves a valid document but gama-local refuses it (line %s: %s)" % (what, line, msg), replay={"gkf": text})
            continue
        st["refused_by_model"] += 1
        exp = at[ORDER[c["at"] - 1]]
        if got != "rejected":
            if cls == "adjusted":
                ctx.violation("attrs|invalid-accepted|" + sig, "%s: the document is adjusted without any diagnostic (expected a refusal at line %d)" % (what, exp), replay={"gkf": text})
            elif cls not in ("error-xml", "error", "not-adjusted"):
                ctx.violation("attrs|invalid-%s|%s" % (cls, sig), "%s: outcome %s" % (what, cls), replay={"gkf": text})
            elif run.res is None or not any((t or "").strip() for t in (run.res.get("error") or [])):
                ctx.violation("attrs|no-diagnostic|" + sig, "%s: refused (%s) without a diagnostic\n%s" % (what, cls, run.out[-400:]), replay={"gkf": text})
        elif not msg.strip() or line != exp:
            ctx.violation("attrs|line|" + sig, "%s: refused at line %s (%r), the corrupted element is on line %d" % (what, line, msg, exp), replay={"gkf": text})
    return st


def cluster_docs(ctx, only=None, keep=None):
    consts = {"MaxClusters": 2 if ctx.quick else 3, "Keep": keep or (1 if ctx.quick else 7), "Seed": ctx.seed}
    cfg = os.path.join(vlib.SPEC, "_gkfcl_%s.cfg" % ctx.pid)
    with open(cfg, "w") as f:
        f.write("SPECIFICATION Spec\nCONSTANTS\n" + "".join("  %s = %s\n" % kv for kv in consts.items()) + "INVARIANT Emit\nCHECK_DEADLOCK FALSE\n")
    r = vlib.tlc("GkfClusters", os.path.basename(cfg), timeout=1200)
    os.remove(cfg)
    if r.outcome != "ok":
        raise vlib.ModelFailure("GkfClusters: %s\n%s" % (r.outcome, r.out[-2000:]))
    docs = r.cases
    vlib.build("asan", ["gama-local"])
    jobs, meta = [], []
    for d in docs:
        text, ends = gkfdocs.cluster_doc(d["doc"])
        jobs.append({"gkf": text, "kind": "asan", "want": ["xml"], "timeout": 60})
        meta.append((d, text, ends))
    runs = gl.run_many(ctx, jobs)
    st = {"documents": len(docs), "refused_by_model": 0, "states": r.distinct}
    for (d, text, ends), run in zip(meta, runs):
        cls = gl.classify(run)
        if cls in ("crash", "sanitizer", "hang"):
            ctx.violation("clusters|" + cls, "cluster document makes gama-local %s (rc=%s)\n%s\n%s" % (cls, run.rc, text, run.out[-1200:]), replay={"gkf": text})
            continue
        got, line, msg = parser_outcome(run)
        fb = d["firstbad"]
        kinds = "+".join("%s/%d/%s" % (c["t"], c["n"], c["cov"]) for c in d["doc"])
        if fb == 0:
            if got != "accepted":
                ctx.violation("clusters|valid-refused|" + d["doc"][-1]["t"], "every cluster is valid (%s) but gama-local refuses at line %s: %s\n%s" % (kinds, line, msg, text), replay={"gkf": text})
        else:
            st["refused_by_model"] += 1
            bad = d["doc"][fb - 1]
            if got != "rejected":
                ctx.violation("clusters|invalid-accepted|%s|%s" % (bad["t"], bad["cov"]), "cluster %d (%s) is malformed but the document is accepted\n%s" % (fb, kinds, text), replay={"gkf": text})
            elif not msg.strip() or line is None or not (ends.get(fb - 1, 9) < line <= ends[fb]):
                ctx.violation("clusters|line|%s|%s" % (bad["t"], bad["cov"]), "cluster %d (%s) is malformed; refused at line %s (%r), the cluster spans lines %d..%d\n%s" % (
                    fb, kinds, line, msg, ends.get(fb - 1, 9) + 1, ends[fb], text), replay={"gkf": text})
    return st


REPL = [b"", b"<", b">", b"&", b"\"", b"'", b"\x00", b"\xff", b"1e999", b"-", b"<point/>", b"</obs>", b"<!--", b"]]>", b"&#0;", b" id=\"\"", b"9" * 40]


def mutation_sweep(ctx):
    d = os.path.join(vlib.REPO, "tests/gama-local/input")
    files = sorted(f for f in os.listdir(d) if f.endswith(".gkf"))
    rnd = random.Random(ctx.seed)
    files = rnd.sample(files, 6 if ctx.quick else 25)
    per = 40 if ctx.quick else 250
    jobs, meta = [], []
    for f in files:
        data = open(os.path.join(d, f), "rb").read()
        nl = data.count(b"\n") + 1
        for k in range(per):
            pos = rnd.randrange(len(data))
            mode = k % 3
            if mode == 0:
                m = data[:pos]                                     # truncation
            elif mode == 1:
                m = data[:pos] + rnd.choice(REPL) + data[pos + 1:]  # replacement
            else:
                end = min(len(data), pos + rnd.randrange(1, 60))
                m = data[:pos] + data[end:]                         # deletion of a span
            jobs.append({"gkf": m, "kind": "asan", "want": ["xml"], "timeout": 60})
            meta.append((f, mode, pos, m.count(b"\n") + 1, m))
    runs = gl.run_many(ctx, jobs)
    stats = {"runs": len(jobs), "rejected": 0, "other": 0}
    for (f, mode, pos, nl, m), run in zip(meta, runs):
        cls = gl.classify(run)
        if cls in ("crash", "sanitizer", "hang"):
            ctx.violation("mutation|" + cls, "%s mutated (mode %d at byte %d): gama-local %s rc=%s\n%s" % (f, mode, pos, cls, run.rc, run.out[-1500:]),
                          replay={"file": f, "mode": mode, "pos": pos, "gkf_latin1": m.decode("latin-1")})
            continue
        got, line, msg = parser_outcome(run)
        if got == "rejected":
            stats["rejected"] += 1
            if line is None or line < 1 or line > nl + 1 or not msg.strip():
                ctx.violation("mutation|unlocated", "%s mutated (mode %d at byte %d): refused with line %s message %r (document has %d lines)" % (f, mode, pos, line, msg, nl),
                              replay={"file": f, "mode": mode, "pos": pos, "gkf_latin1": m.decode("latin-1")})
        else:
            stats["other"] += 1
    return stats


def other_parsers_sweep(ctx):
    """the same deterministic mutations for the other readers: gama-g3 (DataParser), LocalNetworkAdjustmentResults::read_xml
    (through harness/drv_results) and compare-xyz on gama-g3 results; ASan + UBSan builds, termination, no crash"""
    import subprocess, concurrent.futures
    vlib.build("asan", ["gama-g3", "drv_results", "compare-xyz"])
    g3 = vlib.binpath("asan", "gama-g3")
    dr = vlib.binpath("asan", "drv_results")
    cx = vlib.binpath("asan", "compare-xyz")
    rnd = random.Random(ctx.seed + 7)
    d3 = os.path.join(vlib.REPO, "tests/gama-g3/input")
    dl = os.path.join(vlib.REPO, "tests/gama-local/input")
    srcs = [("g3", os.path.join(d3, f)) for f in sorted(os.listdir(d3)) if f.endswith(".xml") and not f.endswith("-adj.xml")]
    srcs += [("g3adj", os.path.join(d3, f)) for f in sorted(os.listdir(d3)) if f.endswith("-adj.xml")]
    srcs += [("res", os.path.join(dl, f)) for f in rnd.sample(sorted(f for f in os.listdir(dl) if f.endswith(".xml")), 4 if ctx.quick else 12)]
    per = 25 if ctx.quick else 150
    wd = os.path.join(ctx.outdir, "others")
    os.makedirs(wd, exist_ok=True)
    env = dict(os.environ)
    env.update(vlib.ASAN_ENV)
    tasks = []
    for kind, path in srcs:
        data = open(path, "rb").read()
        for k in range(per):
            pos = rnd.randrange(len(data))
            mode = k % 3
            if mode == 0:
                m = data[:pos]
            elif mode == 1:
                m = data[:pos] + rnd.choice(REPL) + data[pos + 1:]
            else:
                m = data[:pos] + data[min(len(data), pos + rnd.randrange(1, 60)):]
            tasks.append((kind, os.path.basename(path), mode, pos, m))

    def run(i):
        kind, name, mode, pos, m = tasks[i]
        f = os.path.join(wd, "m%d.xml" % i)
        open(f, "wb").write(m)
        cmd = {"g3": [g3, f, f + ".out"], "g3adj": [cx, f, f], "res": [dr, "xml", f]}[kind]
        try:
            p = subprocess.run(cmd, stdout=subprocess.PIPE, stderr=subprocess.STDOUT, env=env, timeout=60)
            rc, out = p.returncode, p.stdout.decode("utf-8", "replace")
        except subprocess.TimeoutExpired:
            rc, out = -9, "timeout"
        for x in (f, f + ".out"):
            if os.path.exists(x):
                os.remove(x)
        return rc, out
    with concurrent.futures.ThreadPoolExecutor(max_workers=vlib.NCPU) as ex:
        res = list(ex.map(run, range(len(tasks))))
    st = {"runs": len(tasks), "crashes": 0}
    for (kind, name, mode, pos, m), (rc, out) in zip(tasks, res):
        bad = None
        if rc == -9:
            bad = "hang"
        elif "ERROR: AddressSanitizer" in out or "runtime error:" in out:
            bad = "sanitizer"
        elif rc < 0 or rc >= 128:
            bad = "crash"
        if bad:
            st["crashes"] += 1
            ctx.violation("others|%s|%s" % (kind, bad), "%s mutated (mode %d at byte %d) makes the %s reader %s (rc=%s)\n%s" % (
                name, mode, pos, {"g3": "gama-g3 input", "g3adj": "gama-g3 results (compare-xyz)", "res": "adjustment results (read_xml)"}[kind], bad, rc, out[-1500:]),
                replay={"file": name, "kind": kind, "mode": mode, "pos": pos, "data_latin1": m.decode("latin-1")})
    return st


def chunked(ctx, model_docs):
    """harness/drv_chunks: every two-chunk split and byte-wise delivery give the outcome of the whole document"""
    import json
    wd = os.path.join(ctx.outdir, "chunks")
    os.makedirs(wd, exist_ok=True)
    files = []

    def add(name, text):
        p = os.path.join(wd, name)
        open(p, "w" if isinstance(text, str) else "wb").write(text)
        files.append(p)
    add("attr_base.gkf", gkfdocs.attr_doc([])[0])
    for i, m in enumerate([{"e": "distance", "a": "val", "ty": "num", "w": "badnum"}, {"e": "covmat", "a": "dim", "ty": "nat", "w": "domain"},
                           {"e": "point", "a": "id", "ty": "id", "w": "missing"}, {"e": "vec", "a": "bogus", "ty": "str", "w": "unknown"},
                           {"e": "parameters", "a": "sigma-act", "ty": "enum", "w": "badenum"}]):
        add("attr_bad%d.gkf" % i, gkfdocs.attr_doc([m])[0])
    rnd = random.Random(ctx.seed + 11)
    for i, d in enumerate(rnd.sample(list(model_docs), min(len(model_docs), 6 if ctx.quick else 40))):
        add("model%d.gkf" % i, gkfdocs.materialise(d["events"])[0])
    d0 = os.path.join(vlib.REPO, "tests/gama-local/input")
    small = sorted((os.path.getsize(os.path.join(d0, f)), f) for f in os.listdir(d0) if f.endswith(".gkf"))
    for _, f in small[: 3 if ctx.quick else 10]:
        add("repo_" + f, open(os.path.join(d0, f), "rb").read())
    st = {"documents": len(files), "splits": 0}
    for kind in ("asan", "plain"):
        bdir = vlib.build(kind, ["drv_chunks"])
        rc, out = vlib.sh([os.path.join(bdir, "drv_chunks")] + files, timeout=3000, env=vlib.ASAN_ENV if kind == "asan" else None)
        recs = [json.loads(l) for l in out.splitlines() if l.startswith("{")]
        if rc != 0 or len(recs) != len(files):
            ctx.violation("chunks|crash|" + kind, "drv_chunks (%s build) died rc=%s after %d of %d documents\n%s" % (kind, rc, len(recs), len(files), out[-1500:]))
            continue
        for r_ in recs:
            if kind == "plain":
                st["splits"] += r_["size"]
            if r_["bad_splits"] or not r_["bytewise_same"]:
                ctx.violation("chunks|differs", "%s: %d of %d two-chunk splits (first at byte %d: %s) / byte-wise delivery %s give another outcome than the whole document (%s)" % (
                    os.path.basename(r_["file"]), r_["bad_splits"], r_["size"], r_["first_bad"], r_["first_bad_outcome"], "differs" if not r_["bytewise_same"] else "agrees",
                    "accepted" if r_["whole_ok"] else "refused at line %d" % r_["whole_line"]), replay={"file": r_["file"]})
    return st
