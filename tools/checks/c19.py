"""C19 - gama-g3 reproduces consistent global networks, independent of algorithm.
G3Session.tla builds ECEF vector networks (place on the ellipsoid, integer offsets, spanning +
redundant vectors, fixed / constrained status, covariance variant, noise, record order).
Laws checked on gama-g3's XML output: Truth (noise 0), equal results for the four algorithms and
for permuted input records, redundancy / defect / parameters / equations as the specification
computes them, and the --project-equations dump adjusted by Adj (harness/drv_adjxml) gives the
same corrections for all four algorithms."""
import json, math, os, random, re, subprocess
import xml.etree.ElementTree as ET
import vlib
LEVEL = "exploration"
NS = "{http://www.gnu.org/software/gama/gnu-gama-data}"
ALGS = ["envelope", "cholesky", "gso", "svd"]
A_, F_ = 6378137.0, 1 / 298.257223563
PLACES = {"equator": (0.2, 12.0), "midlat": (50.1, 14.4), "nearpole": (89.2, -40.0), "south": (-33.9, 151.2), "antimeridian": (10.0, 179.99)}
COVS = [[4, 4, 4], [4, 1, 0.5, 3, 1, 5], [9, -2, 1, 4, 0.5, 6]]       # band 0 / band 2 (upper rows) / band 2


def base_xyz(place):
    b, l = [math.radians(v) for v in PLACES[place]]
    e2 = F_ * (2 - F_)
    N = A_ / math.sqrt(1 - e2 * math.sin(b) ** 2)
    h = 300.0
    return (round((N + h) * math.cos(b) * math.cos(l)), round((N + h) * math.cos(b) * math.sin(l)), round((N * (1 - e2) + h) * math.sin(b)))


def xyz2blh(x, y, z):
    """textbook iteration (independent of gama's closed formula)"""
    e2 = F_ * (2 - F_)
    l = math.atan2(y, x)
    p = math.hypot(x, y)
    b = math.atan2(z, p * (1 - e2))
    h = 0.0
    for _ in range(12):
        N = A_ / math.sqrt(1 - e2 * math.sin(b) ** 2)
        h = p / math.cos(b) - N if abs(math.cos(b)) > 1e-3 else z / math.sin(b) - N * (1 - e2)
        b = math.atan2(z, p * (1 - e2 * N / (N + h)))
    return b, l, h


def neu2xyz(b, l, n, e, u):
    sb, cb, sl, cl = math.sin(b), math.cos(b), math.sin(l), math.cos(l)
    return (-sb * cl * n - sl * e + cb * cl * u, -sb * sl * n + cl * e + cb * sl * u, cb * n + sb * u)


STAT_TAG = {"fixed": "fixed", "free": "free", "constr": "constr"}


def make_input(net, perm=None):
    bx = base_xyz(net["place"])
    ids = ["P%d" % i for i in range(1, net["np"] + 1)]
    xyz = [tuple(bx[k] + net["offsets"][i][k] for k in range(3)) for i in range(net["np"])]
    blh = [xyz2blh(*p) for p in xyz]
    recs = []
    for i in range(net["np"]):
        hs, us = net["pstat"][i]
        # given coordinates: adjusted (not constrained) components are displaced by centimetres in the local frame
        dn = de = du = 0.0
        if net["displ"]:
            if hs == "free":
                dn, de = (((i + 1) * 3) % 7 - 3) / 100.0, (((i + 2) * 5) % 7 - 3) / 100.0
            if us == "free":
                du = (((i + 3) * 2) % 5 - 2) / 100.0
        d = neu2xyz(blh[i][0], blh[i][1], dn, de, du)
        g = [xyz[i][k] + d[k] for k in range(3)]
        st = "<%s> <n/> <e/> </%s> <%s> <u/> </%s>" % (hs, hs, us, us) if hs != us else "<%s> <n/> <e/> <u/> </%s>" % (hs, hs)
        recs.append("<point> <id>%s</id> <x>%.8f</x> <y>%.8f</y> <z>%.8f</z> <geoid>0</geoid> %s </point>" % (ids[i], g[0], g[1], g[2], st))
    obs = []
    k = 0

    def raised0(i, dh):
        d_ = neu2xyz(blh[i - 1][0], blh[i - 1][1], 0.0, 0.0, dh)
        return tuple(xyz[i - 1][j] + d_[j] for j in range(3))
    gross = net.get("gross", 0)
    # gross = 1: the last (redundant) vector is wrong by 5 m; gross = 2: the spanning vector that alone reaches the last point
    gidx = len(net["vectors"]) if gross == 1 else (net["np"] - 1 if gross == 2 else 0)
    for (a, b) in net["vectors"]:
        k += 1
        nz = 0.0 if net["noise"] == 0 else ((k * (net["noise"] + 2)) % 7 - 3) / 1000.0
        vdh = net.get("vdh", 0)
        vf, vt = (None, None)
        if vdh == 1 and k % 2 == 1:
            vf, vt = 1.512 + 0.1 * k, 0.348 + 0.2 * k
        elif vdh == 2 and k == 1:
            vt = 0.705
        elif vdh == 2 and k == 3:
            vf = 1.333
        pa_ = raised0(a, vf or 0.0)
        pb_ = raised0(b, vt or 0.0)
        d = [pb_[j] - pa_[j] for j in range(3)]
        vdhx = ("<from-dh>%.3f</from-dh> " % vf if vf is not None else "") + ("<to-dh>%.3f</to-dh> " % vt if vt is not None else "")
        if k == gidx:
            d[0] += 5.0
        cov = COVS[net["cov"]]
        band = 0 if len(cov) == 3 else 2
        obs.append("<obs>\n<vector> <from>%s</from> <to>%s</to> <dx>%.9f</dx> <dy>%.9f</dy> <dz>%.9f</dz> %s</vector>\n<cov-mat> <dim>3</dim> <band>%d</band> %s </cov-mat>\n</obs>" % (
            ids[a - 1], ids[b - 1], d[0] + nz, d[1] - nz, d[2] + 2 * nz, vdhx, band, " ".join("<flt>%s</flt>" % v for v in cov)))
    idh = net.get("idh", 0)
    fdh, tdh = (1.55, 1.20) if idh else (0.0, 0.0)

    def raised(i, dh):
        """point i moved by dh along its ellipsoidal normal"""
        d = neu2xyz(blh[i - 1][0], blh[i - 1][1], 0.0, 0.0, dh)
        return tuple(xyz[i - 1][j] + d[j] for j in range(3))
    dhx = "<from-dh>%.2f</from-dh> <to-dh>%.2f</to-dh> " % (fdh, tdh) if idh else ""
    for (a, b) in net["dists"]:
        k += 1
        nz = 0.0 if net["noise"] == 0 else ((k * (net["noise"] + 2)) % 7 - 3) / 1000.0
        obs.append("<obs>\n<distance> <from>%s</from> <to>%s</to> <val>%.8f</val> <stdev>3</stdev> %s</distance>\n</obs>" % (
            ids[a - 1], ids[b - 1], math.dist(raised(a, fdh), raised(b, tdh)) + nz, dhx))
    for a in net["heights"]:
        k += 1
        nz = 0.0 if net["noise"] == 0 else ((k * (net["noise"] + 2)) % 7 - 3) / 1000.0
        obs.append("<obs>\n<height> <id>%s</id> <val>%.8f</val> <stdev>4</stdev> </height>\n</obs>" % (ids[a - 1], blh[a - 1][2] + nz))
    for (a, b) in net["hdiffs"]:
        k += 1
        nz = 0.0 if net["noise"] == 0 else ((k * (net["noise"] + 2)) % 7 - 3) / 1000.0
        obs.append("<obs>\n<hdiff> <from>%s</from> <to>%s</to> <val>%.8f</val> <stdev>2</stdev> </hdiff>\n</obs>" % (ids[a - 1], ids[b - 1], blh[b - 1][2] - blh[a - 1][2] + nz))
    def local(a, b):
        """vector a -> b in the north-east-up frame of a"""
        ba, la = blh[a - 1][0], blh[a - 1][1]
        d = [xyz[b - 1][j] - xyz[a - 1][j] for j in range(3)]
        sb, cb, sl, cl = math.sin(ba), math.cos(ba), math.sin(la), math.cos(la)
        return (-sb * cl * d[0] - sb * sl * d[1] + cb * d[2], -sl * d[0] + cl * d[1], cb * cl * d[0] + cb * sl * d[1] + sb * d[2])
    R2G = 200.0 / math.pi
    for (a, b) in net.get("zeniths", []):
        k += 1
        nz = 0.0 if net["noise"] == 0 else ((k * (net["noise"] + 2)) % 7 - 3) * 1e-4
        pa, pb = raised(a, fdh), raised(b, tdh)
        ba, la = blh[a - 1][0], blh[a - 1][1]
        d = [pb[j] - pa[j] for j in range(3)]
        up = neu2xyz(ba, la, 0.0, 0.0, 1.0)
        cz = sum(d[j] * up[j] for j in range(3)) / math.sqrt(sum(v * v for v in d))
        obs.append("<obs>\n<zenith> <from>%s</from> <to>%s</to> <val>%.10f</val> <stdev>5</stdev> %s</zenith>\n</obs>" % (ids[a - 1], ids[b - 1], math.acos(cz) * R2G + nz, dhx))
    for (a, l_, r_) in net.get("angles", []):
        k += 1
        nz = 0.0 if net["noise"] == 0 else ((k * (net["noise"] + 2)) % 7 - 3) * 1e-4
        nl, el, _ = local(a, l_)
        nr, er, _ = local(a, r_)
        ang = (math.atan2(er, nr) - math.atan2(el, nl)) % (2 * math.pi)
        obs.append("<obs>\n<angle> <from>%s</from> <left>%s</left> <right>%s</right> <val>%.10f</val> <stdev>5</stdev> </angle>\n</obs>" % (ids[a - 1], ids[l_ - 1], ids[r_ - 1], ang * R2G + nz))
    for (a, b) in net.get("azimuths", []):
        k += 1
        nz = 0.0 if net["noise"] == 0 else ((k * (net["noise"] + 2)) % 7 - 3) * 1e-4
        n_, e_, _ = local(a, b)
        obs.append("<obs>\n<azimuth> <from>%s</from> <to>%s</to> <val>%.10f</val> <stdev>5</stdev> </azimuth>\n</obs>" % (ids[a - 1], ids[b - 1], (math.atan2(e_, n_) % (2 * math.pi)) * R2G + nz))
    for a in net.get("xyzobs", []):
        k += 1
        nz = 0.0 if net["noise"] == 0 else ((k * (net["noise"] + 2)) % 7 - 3) / 1000.0
        obs.append("<obs>\n<xyz> <id>%s</id> <x>%.5f</x> <y>%.5f</y> <z>%.5f</z> </xyz>\n<cov-mat> <dim>3</dim> <band>1</band> <flt>4</flt> <flt>1</flt> <flt>5</flt> <flt>-1</flt> <flt>6</flt> </cov-mat>\n</obs>" % (
            ids[a - 1], xyz[a - 1][0] + nz, xyz[a - 1][1] - nz, xyz[a - 1][2] + nz))
    if perm:
        rnd = random.Random(perm)
        rnd.shuffle(obs)
        rnd.shuffle(recs)
    head = ('<?xml version="1.0" ?>\n<gnu-gama-data xmlns="http://www.gnu.org/software/gama/gnu-gama-data">\n<g3-model>\n<constants>\n'
            '<apriori-standard-deviation>10</apriori-standard-deviation>\n<confidence-level>0.95</confidence-level>\n<angular-units-gons/>\n'
            '<ellipsoid><id>wgs84</id></ellipsoid>\n</constants>\n')
    return head + "\n".join(recs) + "\n" + "\n".join(obs) + "\n</g3-model>\n</gnu-gama-data>\n", ids, xyz


def parse_result(text):
    root = ET.fromstring(text)
    res = root.find(NS + "g3-adjustment-results")
    st = res.find(NS + "adjustment-statistics")
    out = {"stats": {}}
    for k in ("parameters", "equations", "defect", "redundancy"):
        out["stats"][k] = int(st.find(NS + k).text)
    out["stats"]["pvv"] = float(st.find(NS + "sum-of-squares").text)
    out["pts"] = {}
    for p in res.find(NS + "adjustment-results").findall(NS + "point"):
        pid = p.find(NS + "id").text.strip()
        d = {}
        for c in "xyz":
            e = p.find(NS + c + "-adjusted")
            g = p.find(NS + c + "-given")
            d[c] = float((e if e is not None else g).text)
        for c in ("dn", "de", "du"):
            e = p.find(NS + c)
            if e is not None:
                d[c] = float(e.text)
        inds = [int(e.text) for e in p.findall(NS + "ind")]
        d["ind"] = inds
        out["pts"][pid] = d
    out["vec"] = []
    ao = res.find(NS + "adjusted-observations")
    if ao is not None:
        for v in ao.findall(NS + "vector"):
            out["vec"].append({"from": v.find(NS + "from").text.strip(), "to": v.find(NS + "to").text.strip(),
                               "res": [float(v.find(NS + "d%s-residual" % c).text) for c in "xyz"], "adj": [float(v.find(NS + "d%s-adjusted" % c).text) for c in "xyz"]})
    return out


def run(ctx):
    q = ctx.quick
    consts = {"Keep": 3 if q else 1, "Keep2": 211 if q else 97, "Seed": ctx.seed}
    cfg = os.path.join(vlib.SPEC, "_g3.cfg")
    with open(cfg, "w") as f:
        f.write("SPECIFICATION Spec\nCONSTANTS\n" + "".join("  %s = %s\n" % kv for kv in consts.items()) + "INVARIANT Emit\nCHECK_DEADLOCK FALSE\n")
    r = vlib.tlc("G3Session", "_g3.cfg", timeout=2400)
    os.remove(cfg)
    if r.outcome != "ok":
        raise vlib.ModelFailure("G3Session: %s\n%s" % (r.outcome, r.out[-2000:]))
    nets = sorted(r.cases, key=lambda c: json.dumps(c, sort_keys=True))
    # scenarios the specification always generates (gross vectors, partially constrained free networks) are all kept
    prio = [n for n in nets if n.get("gross", 0) > 0 or (n["status"] == "pconstr" and n["noise"] == 0)]
    rest = [n for n in nets if not (n.get("gross", 0) > 0 or (n["status"] == "pconstr" and n["noise"] == 0))]
    prio = prio[:: max(1, len(prio) // (300 if q else 3000))]
    nets = prio + rest[:: max(1, len(rest) // (600 if q else 5000))]
    ctx.note("G3Session.tla: %d states, %d networks" % (r.distinct, len(nets)))
    bdir = vlib.build("plain", ["gama-g3", "drv_adjxml"])
    vlib.build("asan", ["gama-g3"])
    g3 = vlib.binpath("asan", "gama-g3")          # gama-g3 runs under ASan + UBSan
    g3env = dict(os.environ)
    g3env.update(vlib.ASAN_ENV)
    wd = os.path.join(ctx.outdir, "g3")
    os.makedirs(wd, exist_ok=True)
    import concurrent.futures

    def job(args):
        ni, alg, perm = args
        net = nets[ni]
        text, ids, xyz = make_input(net, perm)
        base = os.path.join(wd, "n%d_%s_%d" % (ni, alg, perm))
        open(base + ".xml", "w").write(text)
        try:
            p = subprocess.run([g3, "--algorithm", alg, "--project-equations", base + ".pe", base + ".xml", base + ".out"], stdout=subprocess.PIPE, stderr=subprocess.STDOUT, timeout=120, env=g3env)
            rc, out = p.returncode, p.stdout.decode("utf-8", "replace")
        except subprocess.TimeoutExpired:
            rc, out = -9, "timeout"
        res = None
        if os.path.exists(base + ".out"):
            try:
                res = parse_result(open(base + ".out").read())
            except Exception as ex:
                out += "\nparse: %s" % ex
        return (ni, alg, perm, rc, out, res, base, text, ids, xyz)
    tasks = []
    for ni, net in enumerate(nets):
        for alg in ALGS:
            tasks.append((ni, alg, 0))
        tasks.append((ni, "envelope", 7 + net["perm"]))
    with concurrent.futures.ThreadPoolExecutor(max_workers=vlib.NCPU) as ex:
        results = list(ex.map(job, tasks))
    by = {}
    for t in results:
        by.setdefault(t[0], []).append(t)
    pefiles = []
    for ni, lst in by.items():
        net = nets[ni]
        tag = "%s|%s|cov%d" % (net["status"], net["place"], net["cov"])
        ref = None
        # reference for the comparisons: the svd run (input order); the permuted envelope run is compared with the envelope run
        lst = sorted(lst, key=lambda t: (t[2] != 0, t[1] != "svd", t[1] != "envelope"))
        envref = None
        for (ni_, alg, perm, rc, out, res, base, text, ids, xyz) in lst:
            def report(chk, msg, text=text, alg=alg):
                ctx.violation("%s|%s|%s" % (chk, alg, tag), "gama-g3 --algorithm %s: %s" % (alg, msg), replay={"input": text, "net": net})
            if "ERROR: AddressSanitizer" in out or "runtime error:" in out:
                report("sanitizer", out[-1500:])
                continue
            if rc != 0 or res is None:
                report("run", "rc=%s, no result: %s" % (rc, out[-400:]))
                continue
            st = res["stats"]
            for k in ("parameters", "equations", "defect", "redundancy"):
                if st[k] != net[k]:
                    report("stats_" + k, "%s = %s, the specification says %s" % (k, st[k], net[k]))
            if net["noise"] == 0:
                for i, pid in enumerate(ids):
                    p = res["pts"].get(pid)
                    if i + 1 == net.get("dropped", 0):
                        continue                       # no observation of this point is left
                    if p is None:
                        report("truth_missing", "point %s missing in the results" % pid)
                        continue
                    for j, c in enumerate("xyz"):
                        if abs(p[c] - xyz[i][j]) > 2e-6:            # one linearization: second-order effects of the 3 cm displacement stay below 1e-7 m
                            report("truth", "point %s %s adjusted %.7f, generating %d" % (pid, c, p[c], xyz[i][j]))
                # one linearization at given coordinates 3 cm off: the terms gama neglects (tilt of the local vertical when the
                # station moves, second-order terms) leave residuals of about 0.003 cc, i.e. a sum of squares below 1e-4
                if st["pvv"] > (1e-3 if net["displ"] else 1e-5):
                    report("truth_pvv", "sum of squares %r for consistent vectors" % st["pvv"])
            if perm == 0 and alg == "envelope":
                envref = (alg, perm, res)
            if ref is None:
                ref = (alg, perm, res)
            else:
                ra, rp, rr = ref if perm == 0 or envref is None else envref
                what = "algorithm %s vs %s" % (alg, ra) if perm == 0 else "permuted records vs input order"
                chk = "alg_differs" if perm == 0 else "order_differs"
                if abs(res["stats"]["pvv"] - rr["stats"]["pvv"]) > 1e-5 * max(1.0, rr["stats"]["pvv"]):
                    report(chk, "%s: sum of squares %r vs %r" % (what, res["stats"]["pvv"], rr["stats"]["pvv"]))
                for pid, p in res["pts"].items():
                    for c in "xyz":
                        if abs(p[c] - rr["pts"][pid][c]) > 2e-5:
                            report(chk, "%s: point %s %s %.5f vs %.5f" % (what, pid, c, p[c], rr["pts"][pid][c]))
            if perm == 0 and alg == "svd" and os.path.exists(base + ".pe"):
                pefiles.append((base + ".pe", ni, res, text))
    # ---- project equations adjusted by Adj
    nadj = 0
    for k in range(0, len(pefiles), 200):
        chunk = pefiles[k:k + 200]
        rc, out = vlib.sh([os.path.join(bdir, "drv_adjxml")] + [p for p, _, _, _ in chunk], timeout=1200)
        recs = [json.loads(l) for l in out.splitlines() if l.startswith("{")]
        if rc != 0 or len(recs) != len(chunk):
            ctx.violation("adjxml|crash", "drv_adjxml rc=%s\n%s" % (rc, out[-1200:]))
            continue
        for (p, ni, res, text), rec in zip(chunk, recs):
            net = nets[ni]
            tag = "%s|%s|cov%d" % (net["status"], net["place"], net["cov"])
            if "error" in rec:
                ctx.violation("adjxml|error|" + tag, "project equations of gama-g3 cannot be adjusted by Adj: %s" % rec["error"], replay={"input": text})
                continue
            nadj += 1
            for alg, a in rec["alg"].items():
                if a["defect"] != net["defect"]:
                    ctx.violation("adjxml|defect|%s|%s" % (alg, tag), "Adj(%s) defect %s, expected %s" % (alg, a["defect"], net["defect"]), replay={"input": text})
                if abs(a["rtr"] - res["stats"]["pvv"]) > 1e-4 * max(1.0, res["stats"]["pvv"]):
                    ctx.violation("adjxml|rtr|%s|%s" % (alg, tag), "Adj(%s) sum of squares %r, gama-g3 reports %r" % (alg, a["rtr"], res["stats"]["pvv"]), replay={"input": text})
                for pid, pt in res["pts"].items():
                    for c, ind in zip(("dn", "de", "du"), pt["ind"]):
                        if c in pt and ind - 1 < len(a["x"]) and abs(a["x"][ind - 1] - pt[c]) > 2e-3:
                            ctx.violation("adjxml|x|%s|%s" % (alg, tag), "Adj(%s) x(%d) = %r, gama-g3 reports %s = %r for point %s" % (alg, ind, a["x"][ind - 1], c, pt[c], pid), replay={"input": text})
    for f in os.listdir(wd):
        os.remove(os.path.join(wd, f))
    if nets:
        ctx.sample({k: nets[0][k] for k in ("np", "place", "vectors", "dists", "heights", "hdiffs", "status", "displ", "cov", "noise", "parameters", "equations", "defect")})
    ctx.assume("ECEF base points are computed from (B, L, H) by the textbook formula and rounded to integer metres; only vector observations are generated")
    return {"evaluations": len(tasks) + nadj, "distinct_nontrivial": len(nets),
            "rule": "networks = states of G3Session.tla (thinned by Keep = %s / Keep2, then evenly sampled); each is run with 4 algorithms + one permutation of the records, "
                    "and its project equations are adjusted by Adj with 4 algorithms; all networks have >= 3 points" % consts["Keep"],
            "tlc_states": r.distinct, "adj_replays": nadj, "exhaustive": False}
