"""C07 - equivalent descriptions of the same survey give the same adjustment.
Sessions of SurveySession.tla on noisy networks: each edit re-expresses the survey
(translate, rotate circle zero, permute, rename, deg<->gon, swap distance ends, mirror
axes / angle sense); its law is checked on results projected back to the physical frame."""
import sessions
LEVEL = "exploration"
NOISE = "{0, 1, 2, 3}"
KINDS = '{"Translate", "RotateCircle", "Permute", "Rename", "SwitchUnits", "SwapEnds", "MirrorAxes"}'


def run(ctx):
    q = ctx.quick
    r1, one = sessions.generate(ctx, "c07a", {"Templates": sessions.ALL_TEMPLATES, "NoiseSet": NOISE, "MaxEdits": 1, "EditKinds": KINDS,
                                              "KeepNet": 211 if q else 47, "KeepEdit": 3 if q else 1, "Seed": ctx.seed})
    r2, multi = sessions.generate(ctx, "c07b", {"Templates": sessions.ALL_TEMPLATES, "NoiseSet": NOISE, "MaxEdits": 4, "EditKinds": KINDS,
                                                "KeepNet": 1, "KeepEdit": 1, "Seed": ctx.seed}, simulate=150 if q else 2500)
    multi = multi[:120 if q else 3000]
    ctx.note("SurveySession: %d one-edit sessions, %d random 4-edit sessions" % (len(one), len(multi)))
    st1, _, _ = sessions.run_sessions(ctx, one, truth=True, laws=True)
    st2, _, _ = sessions.run_sessions(ctx, multi, truth=True, laws=True)
    if one:
        ctx.sample({"net": {k: one[0]["net"][k] for k in ("t", "axes", "lefthanded", "orient", "noise")}, "edits": [e["e"] for e in one[0]["edits"]]})
    if multi:
        ctx.sample({"net": {k: multi[0]["net"][k] for k in ("t", "axes", "lefthanded", "orient", "noise")}, "edits": [e["e"] for e in multi[0]["edits"]]})
    ctx.assume("results compared to 3e-6 m / 3e-7 gon / 5e-5 relative for standard deviations and covariances (printed precision and iteration threshold of gama-local)")
    noisy = sum(1 for s in one + multi if s["net"]["noise"] > 0)
    return {"evaluations": st1["runs"] + st2["runs"], "distinct_nontrivial": noisy,
            "rule": "sessions = behaviours of SurveySession.tla (exhaustive one-edit sessions thinned by KeepNet/KeepEdit, random 4-edit sessions by -simulate); "
                    "non-trivial = network with noisy observations (noise pattern > 0), so that the adjustment has non-zero residuals",
            "tlc_states": r1.distinct + r2.distinct, "law_checks": st1["law_checks"] + st2["law_checks"], "exhaustive": False}
