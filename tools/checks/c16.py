"""C16 - sparse kernels equal their dense definitions.
SparseKernels.tla enumerates sparsity patterns (rows as column sets with a fill order, position
coded values) with the exact dense matrix, column graph, connectivity, normal matrix and rank;
harness/drv_sparse checks SparseMatrix build/transpose/replicate, SparseMatrixGraph, connected(),
the RCM ordering, Envelope set / cholDec (exact zero pivots, defect) / solve / inverse.
BlockDiag.tla enumerates symmetric positive definite band blocks B = U'U with their exact factor
(in-band zeros included); BlockDiagonal add_block / replicate / cholDec are compared block by block,
alone and in two-block layouts (the homogenised normal equations are checked in C01/C02/C10)."""
import json, os
import vlib
LEVEL = "exploration"


def run(ctx):
    q = ctx.quick
    consts = {"MaxM": 4, "MaxN": 4, "Keep": 5 if q else 1, "Seed": ctx.seed,
              "BigN": "{6}" if q else "{5, 6, 7}", "BigM": 6 if q else 8, "KeepBig": 97 if q else 53}
    cfg = os.path.join(vlib.SPEC, "_sk.cfg")
    with open(cfg, "w") as f:
        f.write("SPECIFICATION Spec\nCONSTANTS\n" + "".join("  %s = %s\n" % kv for kv in consts.items()) + "INVARIANT Emit\nINVARIANT Laws\nCHECK_DEADLOCK FALSE\n")
    r = vlib.tlc("SparseKernels", "_sk.cfg", timeout=2400)
    os.remove(cfg)
    if r.outcome == "invariant":
        ctx.violation("model|" + str(r.violated), r.trace_text[:1500])
    elif r.outcome != "ok":
        raise vlib.ModelFailure("SparseKernels: %s\n%s" % (r.outcome, r.out[-2000:]))
    cases = sorted(r.cases, key=lambda c: json.dumps(c, sort_keys=True))
    ctx.note("SparseKernels.tla: %d states, %d patterns" % (r.distinct, len(cases)))
    path = os.path.join(ctx.outdir, "sparse.txt")
    with open(path, "w") as f:
        for c in cases:
            f.write("CASE %d %d %d %d\n%s\n" % (c["m"], c["n"], c["rank"], 1 if c["connected"] else 0, " ".join(str(v) for row in c["A"] for v in row)))
            for fl in c["fill"]:
                f.write("F %d %s\n" % (len(fl), " ".join(map(str, fl))))
            for a in c["adj"]:
                f.write("G %d %s\n" % (len(a), " ".join(map(str, a))))
            f.write("N %s\nEND\n" % " ".join(str(v) for row in c["N"] for v in row))
    # block-diagonal kernel: exact band blocks B = U'U with their factor from spec/BlockDiag.tla
    bcfg = os.path.join(vlib.SPEC, "_bd.cfg")
    bconsts = {"MaxDim": 4, "Diags": "{1, 2}" if q else "{1, 2, 3}", "Keep": 29 if q else 5, "KeepZ": 7 if q else 2, "Seed": ctx.seed}      # dim 5 x band 4 would be 1.4e7 states
    with open(bcfg, "w") as f:
        f.write("SPECIFICATION Spec\nCONSTANTS\n" + "".join("  %s = %s\n" % kv for kv in bconsts.items()) + "INVARIANT Emit\nINVARIANT Laws\nCHECK_DEADLOCK FALSE\n")
    rb = vlib.tlc("BlockDiag", "_bd.cfg", timeout=2400)
    os.remove(bcfg)
    if rb.outcome == "invariant":
        ctx.violation("model|BlockDiag|" + str(rb.violated), rb.trace_text[:1500])
    elif rb.outcome != "ok":
        raise vlib.ModelFailure("BlockDiag: %s\n%s" % (rb.outcome, rb.out[-2000:]))
    bcases = sorted(rb.cases, key=lambda c: json.dumps(c, sort_keys=True))
    nztn = sum(1 for c in bcases if c["ztn"])
    ctx.note("BlockDiag.tla: %d states, %d blocks (%d with an in-band zero followed by a non-zero)" % (rb.distinct, len(bcases), nztn))
    if not bcases or not nztn:
        raise vlib.ModelFailure("BlockDiag.tla emitted %d blocks, %d with zero-then-nonzero pivot rows" % (len(bcases), nztn))
    ctx.add("bd_blocks", len(bcases))
    ctx.add("bd_blocks_zero_then_nonzero", nztn)
    with open(path, "a") as f:
        for c in bcases:
            pb = [v for row in c["B"] for v in row]
            pu = [v for row in c["U"] for v in row]
            f.write("BD %d %d %d\n%s\n%s\nEND\n" % (c["dim"], c["band"], len(pb), " ".join(map(str, pb)), " ".join(map(str, pu))))
    ncs = len(cases)
    cases = cases + [dict(c, bd=True, rank=c["dim"], n=c["dim"], A="block dim %d band %d packed %s" % (c["dim"], c["band"], c["B"]), fill="factor %s" % c["U"], connected=True) for c in bcases]
    summ = None
    for kind in ("asan", "plain"):
        bdir = vlib.build(kind, ["drv_sparse"])
        rc, out = vlib.sh([os.path.join(bdir, "drv_sparse"), path], timeout=1800, env=vlib.ASAN_ENV if kind == "asan" else None)
        recs = [json.loads(l) for l in out.splitlines() if l.startswith("{")]
        s_ = [x for x in recs if x.get("t") == "summary"]
        if rc != 0 or not s_:
            ctx.violation("sparse|crash|" + kind, "drv_sparse (%s build) died rc=%s\n%s" % (kind, rc, out[-2500:]))
            continue
        summ = s_[0]
        for x in recs:
            if x.get("t") == "fail":
                c = cases[x["case"]]
                feat = ("zero-in-band" if c["zib"] else "dense-band") if c.get("bd") else ("singular" if c["rank"] < c["n"] else "regular")
                ctx.violation("sparse|%s|%s" % (x["check"], feat), "pattern %s (fill %s): %s" % (c["A"], c["fill"], x["msg"]), replay={"case": c})
    nontriv = sum(1 for c in cases[:ncs] if c["rank"] < c["n"] or not c["connected"] or any(0 in row for row in c["A"])) + nztn
    if cases:
        ctx.sample({k: cases[len(cases) // 2][k] for k in ("A", "fill", "adj", "connected", "rank")})
    ctx.assume("values are small integers, so the exact rank is numerically unambiguous; ASan/UBSan observe the memory accesses of the kernels")
    return {"evaluations": len(cases), "block_diagonal_blocks": len(bcases), "distinct_nontrivial": nontriv,
            "rule": "all patterns with up to 4 rows over up to 4 columns x 3 fill orders (thinned by Keep = %s) and edge networks (rows of 2 or 3 columns) over 5..7 columns with up to 8 rows (thinned by KeepBig); non-trivial = has a structural zero, is rank deficient or has a disconnected graph" % consts["Keep"],
            "tlc_states": r.distinct, "checks": summ["checks"] if summ else {}, "exhaustive": not q}
