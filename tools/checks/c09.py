"""C09 - reported statistics are consistent with the adjustment they describe.
StatsConsistent (tools/statcheck.py) is evaluated on every result of SurveySession sessions
(both sigma-act settings, conf-pr grid, sigma-apr factors): dof, aposteriori, confidence scale
(normal / Student reference table), test interval (chi-square), ellipse vs 2x2 covariance,
homogenised projector h from reported sigma: qrr = (1-h)/p, f, std-residual, sum(1-h) = dof;
laws SetSigmaApr (v'Pv scales by 1/k^2 ...), SetConfPr (only the confidence scale changes)."""
import sessions, statcheck
LEVEL = "exploration"
NOISE = "{1, 2, 3}"
SIG = {"direction": 10.0, "distance": 5.0, "angle": 10.0, "slope-distance": 5.0, "zenith-angle": 10.0, "azimuth": 15.0, "height-diff": 3.0,
       "dx": 2.0, "dy": 2.0, "dz": 3.0, "coordinate-x": 3.0, "coordinate-y": 3.0, "coordinate-z": 3.0}


def run(ctx):
    q = ctx.quick
    cnt = {"n": 0, "results": 0}

    def each(res, sv, report):
        if res.get("outcome") == "adjusted":
            cnt["results"] += 1
            cnt["n"] += statcheck.check_stats(res, sv, lambda c, m: report("stat_" + c, m), obs_sigma=[SIG.get(o["type"]) for o in res["obs"]])
    r1, one = sessions.generate(ctx, "c09a", {"Templates": sessions.ALL_TEMPLATES, "NoiseSet": NOISE, "MaxEdits": 1, "EditKinds": '{"SetSigmaApr", "SetConfPr", "SetAlgorithm"}',
                                              "KeepNet": 499 if q else 47, "KeepEdit": 1, "Seed": ctx.seed})
    one = [s for s in one if s["net"]["noise"] > 0]
    r2, two = sessions.generate(ctx, "c09b", {"Templates": sessions.ALL_TEMPLATES, "NoiseSet": NOISE, "MaxEdits": 3, "EditKinds": '{"SetSigmaApr", "SetConfPr", "SetAlgorithm", "SwitchUnits", "Permute"}',
                                              "KeepNet": 1, "KeepEdit": 1, "Seed": ctx.seed}, simulate=100)
    two = [s for s in two if s["net"]["noise"] > 0][:60 if q else 1500]
    ctx.note("SurveySession: %d one-edit, %d three-edit sessions" % (len(one), len(two)))
    st1, _, _ = sessions.run_sessions(ctx, one, truth=False, laws=True, each=each)
    st2, _, _ = sessions.run_sessions(ctx, two, truth=False, laws=True, each=each)
    if one:
        ctx.sample({"net": {k: one[0]["net"][k] for k in ("t", "axes", "lefthanded", "noise")}, "edit": one[0]["edits"][0]["e"]})
    ctx.assume("Student / chi-square / normal quantiles come from the committed table spec/data/quantiles_ref.json (scipy, trusted)")
    ctx.assume("a priori standard deviations of the observations are those written into the generated input")
    return {"evaluations": st1["runs"] + st2["runs"], "distinct_nontrivial": len(one) + len(two),
            "rule": "sessions of SurveySession.tla on noisy networks with SetSigmaApr/SetConfPr/SetAlgorithm edits; every adjusted result is "
                    "one evaluation of StatsConsistent; non-trivial = noisy network (non-zero residuals, dof > 0)",
            "results_checked": cnt["results"], "stat_identities_checked": cnt["n"], "law_checks": st1["law_checks"] + st2["law_checks"],
            "tlc_states": r1.distinct + r2.distinct, "exhaustive": False}
