"""C13 - exported input reproduces the adjustment and is a fixed point.
Law ExportReimport of SurveySession.tla: the exported file describes the same abstract survey
(points + status, observations with values, sigmas, covariance matrices, heights of
instrument/target, parameters) with approximate := adjusted coordinates; adjusting it gives the
same result; applied n = 1..3 times."""
import re
import xml.etree.ElementTree as ET
import sessions, session, gl
LEVEL = "exploration"
NOISE = "{0, 1, 2}"
NSI = "{http://www.gnu.org/software/gama/gama-local}"


def to_gon(v):
    v = v.strip()
    m = re.match(r"^([+-]?)(\d+)-(\d+)-([\d.]+)$", v)
    if m:
        d = (int(m.group(2)) + int(m.group(3)) / 60.0 + float(m.group(4)) / 3600.0) / 0.9
        return -d if m.group(1) == "-" else d, True
    return float(v), False


def abstract(text):
    """abstract survey of a gkf document"""
    root = ET.fromstring(text)
    net = root.find(NSI + "network")
    A = {"net": dict(net.attrib), "params": {}, "points": {}, "clusters": []}
    A["net"].setdefault("axes-xy", "ne")
    A["net"].setdefault("angles", "left-handed")
    par = net.find(NSI + "parameters")
    if par is not None:
        A["params"] = dict(par.attrib)
    po = net.find(NSI + "points-observations")
    A["po"] = dict(po.attrib)
    for el in po:
        tag = el.tag.replace(NSI, "")
        if tag == "point":
            A["points"][el.get("id")] = {"fix": (el.get("fix") or "").lower(), "adj": el.get("adj") or "", "has_xy": el.get("x") is not None, "has_z": el.get("z") is not None}
        else:
            cl = {"type": tag, "attr": {k: v for k, v in el.attrib.items()}, "obs": [], "cov": None}
            for o in el:
                t = o.tag.replace(NSI, "")
                if t == "cov-mat":
                    cl["cov"] = (int(o.get("dim")), int(o.get("band")), [float(x) for x in (o.text or "").split()])
                else:
                    d = dict(o.attrib)
                    d["t"] = t
                    cl["obs"].append(d)
            A["clusters"].append(cl)
    return A


def compare_abstract(A, B, report, approx_changed=True):
    if A["net"].get("axes-xy") != B["net"].get("axes-xy") or A["net"].get("angles") != B["net"].get("angles"):
        report("export_conventions", "axes/angles %s -> %s" % (A["net"], B["net"]))
    for k in ("sigma-apr", "conf-pr", "tol-abs", "sigma-act", "latitude", "ellipsoid", "algorithm", "cov-band"):
        va, vb = A["params"].get(k), B["params"].get(k)
        if va is not None and (vb is None or (va != vb and abs(float(va) - float(vb)) > 1e-9 * abs(float(va)) if k not in ("sigma-act", "ellipsoid", "algorithm") else va != vb)):
            report("export_params", "parameter %s: %s -> %s" % (k, va, vb))
    if set(A["points"]) != set(B["points"]):
        report("export_points", "points %s -> %s" % (sorted(A["points"]), sorted(B["points"])))
    for pid, pa in A["points"].items():
        pb = B["points"].get(pid)
        if pb and (pa["fix"] != pb["fix"] or pa["adj"] != pb["adj"]):
            report("export_status", "point %s status fix=%r adj=%r -> fix=%r adj=%r" % (pid, pa["fix"], pa["adj"], pb["fix"], pb["adj"]))
    ca = [c for c in A["clusters"] if c["obs"]]
    cb = [c for c in B["clusters"] if c["obs"]]
    if [c["type"] for c in ca] != [c["type"] for c in cb] or [len(c["obs"]) for c in ca] != [len(c["obs"]) for c in cb]:
        report("export_clusters", "clusters %s -> %s" % ([(c["type"], len(c["obs"])) for c in ca], [(c["type"], len(c["obs"])) for c in cb]))
        return
    for x, y in zip(ca, cb):
        for k in ("from", "orientation", "from_dh", "extern"):
            if k == "orientation":
                continue
            if x["attr"].get(k) != y["attr"].get(k) and not (k == "from_dh" and float(x["attr"].get(k) or 0) == float(y["attr"].get(k) or 0)):
                report("export_cluster_attr", "%s attribute %s: %r -> %r" % (x["type"], k, x["attr"].get(k), y["attr"].get(k)))
        # effective covariance: explicit cov-mat or diag(stdev^2)
        for oa, ob in zip(x["obs"], y["obs"]):
            if oa["t"] != ob["t"]:
                report("export_obs", "observation type %s -> %s" % (oa["t"], ob["t"]))
                continue
            st_from = x["attr"].get("from")
            for k in ("from", "to", "bs", "fs", "id", "extern"):
                va, vb = oa.get(k), ob.get(k)
                if k == "from":
                    va, vb = va or st_from, vb or y["attr"].get("from")
                if va != vb:
                    report("export_obs", "%s attribute %s: %r -> %r" % (oa["t"], k, va, vb))
            for k in ("val", "dx", "dy", "dz", "x", "y", "z"):
                if k in oa:
                    if k not in ob:
                        report("export_obs", "%s lost attribute %s" % (oa["t"], k))
                        continue
                    if k == "val" and oa["t"] in ("direction", "angle", "z-angle", "azimuth"):
                        va, da = to_gon(oa[k])
                        vb, db = to_gon(ob[k])
                        tol = 2e-9
                    else:
                        va, vb, tol = float(oa[k]), float(ob[k]), 2e-9
                    if abs(va - vb) > tol * max(1.0, abs(va)):
                        report("export_value", "%s %s->%s %s: %r -> %r" % (oa["t"], oa.get("from") or st_from, oa.get("to"), k, oa[k], ob[k]))
            for k in ("from_dh", "to_dh", "bs_dh", "fs_dh", "dist"):
                va, vb = float(oa.get(k) or 0), float(ob.get(k) or 0)
                if abs(va - vb) > 1e-9:
                    report("export_heights", "%s %s->%s %s: %r -> %r" % (oa["t"], oa.get("from") or st_from, oa.get("to"), k, oa.get(k), ob.get(k)))
            if x["cov"] is None and "stdev" in oa:
                sa = float(oa["stdev"])
                if oa["t"] in ("direction", "angle", "z-angle", "azimuth") and to_gon(oa["val"])[1]:
                    sa = sa / 0.324
                sb = None
                if "stdev" in ob:
                    sb = float(ob["stdev"])
                    if ob["t"] in ("direction", "angle", "z-angle", "azimuth") and to_gon(ob["val"])[1]:
                        sb = sb / 0.324
                elif y["cov"] is not None:
                    sb = None
                if sb is not None and abs(sa - sb) > 1e-7 * max(1, sa):
                    report("export_stdev", "%s %s->%s stdev %r -> %r" % (oa["t"], oa.get("from") or st_from, oa.get("to"), oa.get("stdev"), ob.get("stdev")))
        if x["cov"] is not None:
            if y["cov"] is None:
                report("export_cov", "%s lost its cov-mat" % x["type"])
            else:
                da, ba, ea = x["cov"]
                db, bb, eb = y["cov"]
                if da != db:
                    report("export_cov", "%s cov-mat dim %d -> %d" % (x["type"], da, db))
                else:
                    def full(d, b, e):
                        m, it = {}, iter(e)
                        for i in range(d):
                            for j in range(i, min(d, i + b + 1)):
                                m[(i, j)] = next(it)
                        return m
                    fa, fb = full(da, ba, ea), full(db, bb, eb)
                    # covariances of angular observations written in degrees are in arc seconds: bring both to centesimal units
                    ANG = ("direction", "angle", "z-angle", "azimuth")

                    def unit(o):
                        return 1.0 / 0.324 if (o["t"] in ANG and to_gon(o["val"])[1]) else 1.0
                    if x["type"] == "obs" and len(x["obs"]) == da:
                        ua, ub = [unit(o) for o in x["obs"]], [unit(o) for o in y["obs"]]
                        fa = {k_: v * ua[k_[0]] * ua[k_[1]] for k_, v in fa.items()}
                        fb = {k_: v * ub[k_[0]] * ub[k_[1]] for k_, v in fb.items()}
                    for key in set(fa) | set(fb):
                        if abs(fa.get(key, 0.0) - fb.get(key, 0.0)) > 1e-7 * max(1.0, abs(fa.get(key, 0.0))):
                            report("export_cov", "%s cov-mat element %s: %r -> %r" % (x["type"], key, fa.get(key, 0.0), fb.get(key, 0.0)))
                            break


def run(ctx):
    q = ctx.quick
    r, ss = sessions.generate(ctx, "c13", {"Templates": sessions.ALL_TEMPLATES, "NoiseSet": NOISE, "MaxEdits": 2,
                                           "EditKinds": '{"ExportReimport", "SwitchUnits", "AttachHeights", "MirrorAxes", "SwapEnds", "Rename", "InputFeatures"}',
                                           "KeepNet": 211 if q else 47, "KeepEdit": 1 if q else 3, "Seed": ctx.seed})
    ss = [s for s in ss if s["edits"][-1]["e"]["k"] == "ExportReimport"]
    ss = ss[:: max(1, len(ss) // (400 if q else 6000))]
    ctx.note("SurveySession: %d sessions ending in ExportReimport" % len(ss))
    # materialise the survey before the export
    surveys = []
    for s in ss:
        sv = sessions.base_survey(s["net"])
        for ed in s["edits"][:-1]:
            sv = session.apply_edit(sv, ed["e"])
        surveys.append(sv)
    cur = [sv.gkf() for sv in surveys]
    orig = list(cur)
    prev_res = [None] * len(ss)
    rounds = [s["edits"][-1]["e"]["rounds"] for s in ss]
    nruns = 0
    for rd in range(0, 4):
        idx = [i for i in range(len(ss)) if rounds[i] >= rd]
        if not idx:
            break
        jobs = [{"gkf": cur[i], "args": surveys[i].cli(), "want": ["xml", "export", "text"]} for i in idx]
        runs = gl.run_many(ctx, jobs)
        nruns += len(jobs)
        for i, run in zip(idx, runs):
            sv = surveys[i]
            feats = "".join("+F%d" % e_["e"]["s"] for e_ in ss[i]["edits"] if e_["e"]["k"] == "InputFeatures")
            tag = "%s%s|round%d" % (ss[i]["net"]["t"], feats, rd)

            def report(chk, msg, i=i, tag=tag, rd=rd):
                ctx.violation("%s|%s" % (chk, tag), "session %d (%s), export round %d: %s" % (i, [e["e"]["k"] for e in ss[i]["edits"]], rd, msg),
                              replay={"gkf": cur[i], "original": orig[i], "session": ss[i]})
            cls = gl.classify(run)
            if cls != "adjusted":
                if rd > 0:
                    report("reimport_outcome", "exported file is not adjusted (%s): %s" % (cls, run.out[-400:]))
                rounds[i] = -1
                continue
            exp = run.files.get("export")
            if exp is None:
                report("export_missing", "no export file written")
                rounds[i] = -1
                continue
            P = session.project(run.res, sv)
            if rd > 0 and prev_res[i] is not None:
                session.check_law(prev_res[i], P, {"k": "ExportReimport"}, {"coords": "same", "obs": "same", "stats": "same", "cov": "same"}, sv, sv, report)
                m = re.search(r"Number of linearization iterations\s*:?\s*(\d+)", run.text or "")
                if m and int(m.group(1)) > 0:
                    report("reimport_iterations", "adjusting the exported file needed %s linearization iterations" % m.group(1))
            prev_res[i] = P
            try:
                etext = exp.decode("utf-8")
                A = abstract(cur[i])
                B = abstract(etext)
            except (ET.ParseError, UnicodeDecodeError) as ex:
                report("export_malformed", "exported file is not well-formed XML: %s" % ex)
                rounds[i] = -1
                continue
            compare_abstract(A, B, report)
            cur[i] = etext
    # ---- export without any other output (the XML output switches the network to gons before the export is written)
    idx = [i for i in range(len(ss)) if surveys[i].deg or i % 4 == 0]
    # surveys written in degrees are also exported while the network is in degree mode (--angular 360): values in d-m-s, standard
    # deviations in arc seconds
    jobs = [{"gkf": orig[i], "args": surveys[i].cli() + (["--angular", "360"] if surveys[i].deg else []), "want": ["export", "text"]} for i in idx]        # without any output gama-local writes XML, which switches to gons
    runs = gl.run_many(ctx, jobs)
    nruns += len(jobs)
    for i, run in zip(idx, runs):
        feats = "".join("+F%d" % e_["e"]["s"] for e_ in ss[i]["edits"] if e_["e"]["k"] == "InputFeatures")
        tag = "%s%s|%s|export-only" % (ss[i]["net"]["t"], feats, "deg" if surveys[i].deg else "gon")

        def report(chk, msg, i=i, tag=tag):
            ctx.violation("%s|%s" % (chk, tag), "session %d (%s), export without other outputs: %s" % (i, [e["e"]["k"] for e in ss[i]["edits"]], msg),
                          replay={"gkf": orig[i], "session": ss[i]})
        exp = run.files.get("export")
        if exp is None:
            if gl.classify(run) in ("crash", "sanitizer", "hang"):
                report("export_crash", run.out[-400:])
            continue
        try:
            compare_abstract(abstract(orig[i]), abstract(exp.decode("utf-8")), report)
        except (ET.ParseError, UnicodeDecodeError) as ex:
            report("export_malformed", "exported file is not well-formed XML: %s" % ex)
    if ss:
        ctx.sample({"net": {k: ss[0]["net"][k] for k in ("t", "axes", "noise")}, "edits": [e["e"] for e in ss[0]["edits"]]})
    ctx.assume("the abstract survey is read from both files by an independent reader (ElementTree) in tools/checks/c13.py")
    return {"evaluations": nruns, "distinct_nontrivial": len(ss),
            "rule": "sessions of SurveySession.tla ending in ExportReimport(rounds 1..3), preceded by an edit that changes units / heights / axes / ids; "
                    "every session is a distinct (network, preceding edit, rounds) triple",
            "tlc_states": r.distinct, "exhaustive": False}
