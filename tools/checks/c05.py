"""C05 - linearised observation equations equal the true Jacobian and misclosure.
spec/Linearization.tla enumerates lattice configurations (observation type x Pythagorean offsets
in all octants x vertical offsets x 8 axes x 2 angle senses x free/fixed masks x deltas incl.
wrap-forcing ones) with the exact rational partial derivatives of the observation functions;
harness/drv_lin dumps LocalNetwork::project_equations(A,b,w) of the materialised input and every
coefficient, index assignment and right-hand side is compared (1e-9 relative)."""
import json, math, os
import vlib, gl, session
LEVEL = "exploration"
RHO = 200.0 / math.pi * 1e4 / 1e3          # rad/m -> cc/mm
BASE = (1000.0, 2000.0, 100.0)
T3OFF = (-700.0, 100.0, 0.0)
ANG = ("direction", "angle", "azimuth", "z-angle")


def mk(cfg):
    """survey for one configuration; returns (gkf text, expectation)"""
    t = cfg["t"]
    o, o2 = cfg["off"], cfg["off2"]
    dim3 = t in ("s-distance", "z-angle", "dh", "vector", "coords") or o[2] != 0
    if t != "angle":
        o2 = (-900, -200, 0)
    P = {"S": BASE, "T": (BASE[0] + o[0], BASE[1] + o[1], BASE[2] + o[2]), "T2": (BASE[0] + o2[0], BASE[1] + o2[1], BASE[2]),
         "T3": (BASE[0] + T3OFF[0], BASE[1] + T3OFF[1], BASE[2]), "T4": (BASE[0] + 700.0, BASE[1] - 900.0, BASE[2] + 20.0)}
    unk = {"S": cfg["mask"][0] == "t", "T": cfg["mask"][1] == "t", "T2": False, "T3": False, "T4": False}
    net = {"t": "lin", "dim": 3 if dim3 else 2, "pts": [{"id": k, "e": v[0], "n": v[1], "u": v[2], "role": "unk" if unk[k] else "fix"} for k, v in P.items()],
           "obs": [], "axes": cfg["axes"], "lefthanded": cfg["lefthanded"], "orient": 0, "noise": 0}
    sv = session.Survey(net)
    sv.orient = {"S": cfg["orient"] / 1e4}
    dl = cfg["delta"] / 1e5

    def ob(tt, fr, to, to2=""):
        sv.obs.append(dict(t=tt, fr=fr, to=to, to2=to2, k=len(sv.obs), fdh=0.0, tdh=0.0, swap=False, passive=False))
    if t == "direction":
        ob("direction", "S", "T"); ob("direction", "S", "T2"); ob("direction", "S", "T3")
    elif t == "angle":
        ob("angle", "S", "T", "T2")
    elif t in ("distance", "azimuth", "s-distance", "z-angle", "dh", "vector"):
        ob(t, "S", "T")
    elif t == "coords":
        ob("coords", "T", "")
    # every unknown point is determined by three distances from fixed points (and a height difference in 3-D);
    # these rows follow the tested one
    for pid in ("S", "T"):
        if unk[pid]:
            for fx in ("T2", "T3", "T4"):
                ob("s-distance" if dim3 else "distance", fx, pid)
            if dim3:
                ob("dh", "T2", pid)
    # the survey dict, then the delta is added to the first observation's value
    d = sv.to_survey_dict()
    for c in d["clusters"]:
        if t == "dh" and c["type"] == "hdiffs":
            first = [x for x in c["obs"] if x["from"] == "S"][0]
            first["val"] = "%.10f" % (float(first["val"]) + dl)
            break
        if t != "dh" and c["type"] == "obs" and c["from"] == "S":
            first = c["obs"][0]
            v = float(first["val"]) + dl
            if t in ANG:
                # delta is defined on the physical (clockwise) value; a counterclockwise circle reads the negative
                v = float(first["val"]) + (dl if sv.lh or t == "z-angle" else -dl)
                v = v % 400.0 if t != "z-angle" else v
            first["val"] = "%.10f" % v
            break
    d["params"]["tol-abs"] = 1e9
    return gl.write_gkf(d), sv, P, unk


def expected_row(cfg, sv, P, unk):
    """physical partial derivatives of the first observation: {(pid, 'e'|'n'|'u'|'ori'): value in gama's units}"""
    t = cfg["t"]
    fr = lambda q: q[0] / q[1]
    s = 1.0 if (cfg["lefthanded"] or t == "z-angle") else -1.0
    E = {}

    def add(pid, vec, k):
        for c, v in zip("enu", vec):
            if v != 0:
                E[(pid, c)] = E.get((pid, c), 0.0) + k * fr(v)
    dt = cfg["dtarget"]
    if t in ("direction", "azimuth"):
        add("T", dt, s * RHO); add("S", dt, -s * RHO)
        if t == "direction":
            E[("S", "ori")] = -1.0
    elif t == "angle":
        add("T2", dt, s * RHO); add("S", dt, -s * RHO)
        add("T", cfg["dback"], -s * RHO); add("S", cfg["dback"], s * RHO)
    elif t == "z-angle":
        add("T", dt, RHO); add("S", dt, -RHO)
    elif t in ("distance", "s-distance"):
        add("T", dt, 1.0); add("S", dt, -1.0)
    elif t == "dh":
        E[("T", "u")] = 1.0; E[("S", "u")] = -1.0
    return {k: v for k, v in E.items() if (k[1] == "ori" or unk.get(k[0], False))}


def run(ctx):
    q = ctx.quick
    consts = {"Keep": 211 if q else 23, "Seed": ctx.seed}
    cfg = os.path.join(vlib.SPEC, "_lin.cfg")
    with open(cfg, "w") as f:
        f.write("SPECIFICATION Spec\nCONSTANTS\n" + "".join("  %s = %s\n" % kv for kv in consts.items()) + "INVARIANT Emit\nCHECK_DEADLOCK FALSE\n")
    r = vlib.tlc("Linearization", "_lin.cfg", timeout=2400)
    os.remove(cfg)
    if r.outcome != "ok":
        raise vlib.ModelFailure("Linearization: %s\n%s" % (r.outcome, r.out[-2500:]))
    cases = sorted([c for c in r.cases if c["t"] not in ("vector", "coords")], key=lambda c: json.dumps(c, sort_keys=True))
    ctx.note("Linearization.tla: %d configurations" % len(cases))
    bdir = vlib.build("plain", ["drv_lin"])
    wd = os.path.join(ctx.outdir, "lin")
    os.makedirs(wd, exist_ok=True)
    files, meta = [], []
    for i, c in enumerate(cases):
        text, sv, P, unk = mk(c)
        p = os.path.join(wd, "c%05d.gkf" % i)
        open(p, "w").write(text)
        files.append(p)
        meta.append((c, sv, P, unk, text))
    recs = []
    for k in range(0, len(files), 400):
        rc, out = vlib.sh([os.path.join(bdir, "drv_lin")] + files[k:k + 400], timeout=1200)
        for line in out.splitlines():
            if line.startswith("{"):
                recs.append(json.loads(line))
        if rc != 0:
            ctx.violation("drv_lin|crash", "drv_lin died rc=%s on files %d..%d\n%s" % (rc, k, k + 400, out[-1500:]))
    ncoef = 0
    types = {}
    for (c, sv, P, unk, text), rec in zip(meta, recs):
        tag = "%s|%s" % (c["t"], "lh" if c["lefthanded"] else "rh")

        def report(chk, msg, c=c, text=text, tag=tag):
            ctx.violation("%s|%s" % (chk, tag), "%s (config %s)" % (msg, {k: c[k] for k in ("t", "off", "off2", "axes", "lefthanded", "mask", "delta", "orient")}),
                          replay={"gkf": text, "config": c})
        if "error" in rec:
            report("error", "gama refuses the configuration: %s" % rec["error"])
            continue
        types[c["t"]] = types.get(c["t"], 0) + 1
        un = rec["unknowns"]
        # index bijection, y follows x
        idx = {}
        for i, (ty, pid) in enumerate(un, 1):
            idx[(pid, ty)] = i
        for (pid, ty), i in idx.items():
            if ty == "X" and idx.get((pid, "Y")) != i + 1:
                report("index_y_follows_x", "unknown Y of %s has index %s, X has %d" % (pid, idx.get((pid, "Y")), i))
        if not rec["rows"]:
            report("norows", "no observation equation was produced: unknowns %s" % un)
            continue
        row = rec["rows"][0]
        if c["t"] == "dh":
            cand = [x for x in rec["rows"] if x["t"] == "dh" and x["from"] == "S"]
            row = cand[0] if cand else row
        if row["t"] != c["t"]:
            report("rowtype", "first row is %s" % row["t"])
            continue
        exp_phys = expected_row(c, sv, P, unk)
        ys = rec["y_sign"]
        ax, ay = session.AXV[c["axes"][0]], session.AXV[c["axes"][1]]
        exp = {}
        for (pid, comp), v in exp_phys.items():
            if comp == "ori":
                exp[(pid, "R")] = v
            elif comp == "u":
                exp[(pid, "Z")] = exp.get((pid, "Z"), 0.0) + v
            else:
                # E = x ax[0] + y ay[0], N = x ax[1] + y ay[1]; internal y = y_sign * described y
                ce = v if comp == "e" else 0.0
                cn = v if comp == "n" else 0.0
                exp[(pid, "X")] = exp.get((pid, "X"), 0.0) + ce * ax[0] + cn * ax[1]
                exp[(pid, "Y")] = exp.get((pid, "Y"), 0.0) + ys * (ce * ay[0] + cn * ay[1])
        got = {}
        for col, val in row["a"]:
            ty, pid = un[col - 1]
            got[(pid, ty)] = val
        scale = max([abs(v) for v in exp.values()] + [1e-12])
        for key in set(exp) | set(got):
            e_, g_ = exp.get(key, 0.0), got.get(key, 0.0)
            ncoef += 1
            if abs(e_ - g_) > 1e-9 * scale + 1e-13:
                report("coefficient", "d(%s)/d(%s of %s): gama %r, exact %r" % (c["t"], key[1], key[0], g_, e_))
        # right-hand side = observed - computed, angular ones reduced to (-200, 200] gon
        dl = c["delta"] / 1e5
        s = 1.0 if (c["lefthanded"] or c["t"] in ("z-angle", "distance", "s-distance", "dh")) else -1.0
        if c["t"] in ANG:
            d = s * dl if c["t"] != "z-angle" else dl
            d = (d + 200.0) % 400.0 - 200.0 if c["t"] != "z-angle" else d
            eb = d * 1e4
            ok = abs(row["b"] - eb) < 2e-3 or (abs(abs(eb) - 2e6) < 1 and abs(abs(row["b"]) - abs(eb)) < 2e-3)
        else:
            eb = dl * 1e3
            ok = abs(row["b"] - eb) < 2e-4
        if not ok:
            report("rhs", "right-hand side %r, observed - computed = %r" % (row["b"], eb))
    for f in files:
        os.remove(f)
    if meta:
        ctx.sample({"config": {k: meta[0][0][k] for k in ("t", "off", "axes", "lefthanded", "mask", "delta")}, "exact_partials_target": meta[0][0]["dtarget"]})
    ctx.assume("observed values are computed from the lattice coordinates by the textbook formulas of tools/session.py; rad/m -> cc/mm factor 2000/pi")
    ctx.assume("vector and observed-coordinate rows are checked in C06/C07/C13 only")
    return {"evaluations": len(cases), "distinct_nontrivial": len(cases), "rule": "configurations of Linearization.tla thinned by Keep/Seed: %s; all are distinct geometries / conventions; by type: %s" % (consts, types),
            "coefficients_compared": ncoef, "tlc_states": r.distinct, "exhaustive": False}
