"""C01 - every solver returns the weighted least-squares minimiser.
Direction A: spec/LsqCases.tla enumerates exact problems + certificates, harness/drv_lsq replays
them on AdjEnvelope/AdjCholDec/AdjGSO/AdjSVD (as LocalNetwork drives them) and on Adj (gama-g3)."""
import lsq, levelling
LEVEL = "exploration"


def run(ctx):
    a = lsq.api_check(ctx, "C01:")
    lv = levelling.check(ctx, want=("C01",))
    ctx.assume("weights P = adj(C)/det(C), rank and null space come from TLC (ExactLA); the harness only forms dot products")
    ctx.assume("universe: entries of A in -1..1 (plus levelling rows), catalogue of small-integer SPD band blocks; tolerance 1e-8 of problem scale")
    return {"evaluations": a["cases"] * 8 + lv["runs"], "distinct_nontrivial": a["nontrivial"] + lv["nontrivial"],
            "rule": "cases = final states of LsqCases.tla (thinned by KMat/KVar/Seed = %s); non-trivial = admissible and (rank deficient or correlated covariance block); "
                    "plus levelling networks of Levelling.tla run through gama-local with all four algorithms" % a["consts"],
            "tlc_states": a["tlc_states"], "api_checks_evaluated": a["nchecks"], "levelling": lv,
            "exhaustive": False}
