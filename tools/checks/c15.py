"""C15 - the dense matrix library obeys the algebra it implements.
 (a) MatVecObjects.tla: every behaviour (construct / copy / move / self-assign / reset / write,
     objects of different sizes incl. empty) is replayed on Vec and Mat under ASan+UBSan and the
     elements of all objects are compared with the model after every step (value semantics);
 (b) MatAlgebra.tla: small integer matrices with exact products, transposes, determinants,
     adjugates, ranks (ExactLA): sums, products, transposes, inv(A) A = I, Cholesky of SymMat /
     BandMat / CovMat, SVD reconstruction and orthonormality, the four Moore-Penrose conditions,
     and an exception for every non-conforming operand pair."""
import json, os
import vlib
LEVEL = "model_checking"


def emit_state(st):
    out = []
    for k in ("1", "2", "3"):
        o = st[k] if isinstance(st, dict) else st[int(k) - 1]
        if o.get("u"):
            out.append("X -1 -1 0")           # unspecified (moved-from): not compared
        else:
            out.append("X %d %d %d %s" % (o["r"], o["c"], len(o["v"]), " ".join(str(x) for x in o["v"])))
    return "\n".join(out)


def run(ctx):
    q = ctx.quick
    consts = {"MaxSteps": 3 if q else 4, "Keep": 7 if q else 11, "Seed": ctx.seed}
    cfg = os.path.join(vlib.SPEC, "_mvo.cfg")
    with open(cfg, "w") as f:
        f.write("SPECIFICATION Spec\nCONSTANTS\n" + "".join("  %s = %s\n" % kv for kv in consts.items()) + "INVARIANT Emit\nPROPERTY Independent\nCHECK_DEADLOCK FALSE\n")
    r = vlib.tlc("MatVecObjects", "_mvo.cfg", timeout=2400)
    os.remove(cfg)
    if r.outcome in ("invariant", "property"):
        ctx.violation("model|" + str(r.violated), r.trace_text[:1500])
    elif r.outcome != "ok":
        raise vlib.ModelFailure("MatVecObjects: %s\n%s" % (r.outcome, r.out[-2000:]))
    # random longer behaviours
    cfg = os.path.join(vlib.SPEC, "_mvo2.cfg")
    with open(cfg, "w") as f:
        f.write("SPECIFICATION Spec\nCONSTANTS\n  MaxSteps = 9\n  Keep = 1\n  Seed = %d\nINVARIANT Emit\nCHECK_DEADLOCK FALSE\n" % ctx.seed)
    r2 = vlib.tlc("MatVecObjects", "_mvo2.cfg", timeout=1200, simulate=300 if q else 5000, depth=10, seed=ctx.seed, workers=1)
    os.remove(cfg)
    hists = sorted(r.cases + r2.cases, key=lambda c: json.dumps(c["hist"], sort_keys=True))
    ctx.note("MatVecObjects: %d states, %d behaviours (%d exhaustive (thinned) short, %d random length 9)" % (r.distinct, len(hists), len(r.cases), len(r2.cases)))
    path = os.path.join(ctx.outdir, "mvo.txt")
    with open(path, "w") as f:
        for kind in ("vec", "mat"):
            f.write("K %s\n" % kind)
            for hi, h in enumerate(hists):
                f.write("H %d\n" % hi)
                for s in h["hist"]:
                    a = s["a"]
                    if a in ("construct", "reset"):
                        f.write("%s %d %d %d %d\n" % (a, s["o"], s["r"], s["c"], s["s"]))
                    elif a in ("assign", "copymove", "move"):
                        f.write("%s %d %d\n" % (a, s["o"], s["p"]))
                    elif a == "selfassign":
                        f.write("selfassign %d\n" % s["o"])
                    else:
                        f.write("set %d %d %d\n" % (s["o"], s["k"], s["val"]))
                    f.write(emit_state(s["st"]) + "\n")
            f.write("ENDK\n")
    total_steps = 0
    for kind in ("asan", "plain"):
        bdir = vlib.build(kind, ["drv_matvec", "drv_algebra"])
        rc, out = vlib.sh([os.path.join(bdir, "drv_matvec"), path], timeout=1800, env=vlib.ASAN_ENV if kind == "asan" else None)
        recs = [json.loads(l) for l in out.splitlines() if l.startswith("{")]
        summ = [x for x in recs if x.get("t") == "summary"]
        if rc != 0 or not summ:
            ctx.violation("lifecycle|crash|" + kind, "drv_matvec (%s build) died rc=%s\n%s" % (kind, rc, out[-2500:]))
            continue
        total_steps += summ[0]["steps"]
        for x in recs:
            if x.get("t") == "mismatch":
                h = hists[x["hist"]]
                ctx.violation("lifecycle|%s|%s" % (x["kind"], x["after"]), "%s: after '%s' object %d holds %s (%d elements), the model expects %d elements; behaviour: %s" % (
                    x["kind"], x["after"], x["object"], x["got"], x["got_n"], x["expected_n"], [{k: v for k, v in s.items() if k != "st"} for s in h["hist"]]),
                    replay={"behaviour": h})
    alg = algebra(ctx)
    ctx.sample({"behaviour": [{k: v for k, v in s.items() if k != "st"} for s in hists[len(hists) // 2]["hist"]]})
    ctx.assume("memory safety observed by ASan/UBSan; leaks are not checked (MemRep::operator= leaks by design of the current code)")
    return {"states": r.distinct + alg["states"], "transitions": r.generated + alg["transitions"], "traces_validated_against_impl": 2 * len(hists) + alg["cases"],
            "lifecycle_steps_compared": total_steps, "algebra": alg, "exhaustive": True}


def algebra(ctx):
    q = ctx.quick
    consts = {"Keep": 37 if q else 3, "Seed": ctx.seed}
    cfg = os.path.join(vlib.SPEC, "_malg.cfg")
    with open(cfg, "w") as f:
        f.write("SPECIFICATION Spec\nCONSTANTS\n" + "".join("  %s = %s\n" % kv for kv in consts.items()) + "INVARIANT Emit\nINVARIANT Laws\nCHECK_DEADLOCK FALSE\n")
    r = vlib.tlc("MatAlgebra", "_malg.cfg", timeout=2400)
    os.remove(cfg)
    if r.outcome == "invariant":
        ctx.violation("model|MatAlgebra|" + str(r.violated), r.trace_text[:1500])
        return {"states": 1, "transitions": 1, "cases": 0}
    if r.outcome != "ok":
        raise vlib.ModelFailure("MatAlgebra: %s\n%s" % (r.outcome, r.out[-2000:]))
    cases = sorted(r.cases, key=lambda c: json.dumps(c, sort_keys=True))
    path = os.path.join(ctx.outdir, "alg.txt")

    def mat(M, r_, c_):
        return "%d %d %s" % (r_, c_, " ".join(str(x) for row in M for x in row))
    with open(path, "w") as f:
        for c in cases:
            f.write("CASE %d %d %d\n" % (c["r"], c["k"], c["c"]))
            f.write("A " + mat(c["A"], c["r"], c["k"]) + "\n")
            f.write("B " + mat(c["B"], c["k"], c["c"]) + "\n")
            f.write("AB " + mat(c["AB"], c["r"], c["c"]) + "\n")
            f.write("RANK %d\n" % c["rankA"])
            if "det" in c:
                f.write("DET %d\nADJ %s\n" % (c["det"], mat(c["adj"], c["r"], c["r"])))
            f.write("END\n")
    bdir = vlib.build("plain", ["drv_algebra"])
    rc, out = vlib.sh([os.path.join(bdir, "drv_algebra"), path], timeout=1800)
    recs = [json.loads(l) for l in out.splitlines() if l.startswith("{")]
    summ = [x for x in recs if x.get("t") == "summary"]
    if rc != 0 or not summ:
        ctx.violation("algebra|crash", "drv_algebra died rc=%s\n%s" % (rc, out[-2000:]))
        return {"states": r.distinct, "transitions": r.generated, "cases": len(cases)}
    for x in recs:
        if x.get("t") == "fail":
            ctx.violation("algebra|" + x["check"], "case %d (%s): %s" % (x["case"], cases[x["case"]]["A"] if x["case"] < len(cases) else "?", x["msg"]), replay={"case": cases[x["case"]] if x["case"] < len(cases) else None})
    return {"states": r.distinct, "transitions": r.generated, "cases": len(cases), "checks": summ[0]["checks"]}
