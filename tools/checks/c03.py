"""C03 - reported cofactors are the true (generalised) inverse.
Direction A on the LsqCases universe (all index pairs, every solver entry point) and on the
levelling networks through gama-local (cov-mat of the XML = m0^2 Q, stdev of adjusted obs)."""
import lsq, levelling
LEVEL = "exploration"


def run(ctx):
    a = lsq.api_check(ctx, "C03:")
    lv = levelling.check(ctx, want=("C03",))
    cb = covband(ctx)
    ctx.assume("N = A'PA is formed by the harness from TLC's exact integers (adjugate/determinant of each covariance block)")
    ctx.assume("XML prints cofactors with 8 significant digits: network-level identities are checked to 5e-6 relative")
    return {"evaluations": a["cases"] * 8 + lv["runs"] + cb["runs"], "distinct_nontrivial": a["nontrivial"] + lv["nontrivial"],
            "rule": "LsqCases.tla final states (consts %s), all (i,j) for q_xx/q0_xx/q_bb; non-trivial = rank deficient or correlated block; "
                    "levelling networks via gama-local; --cov-band k vs full matrix on %d networks" % (a["consts"], cb["networks"]),
            "tlc_states": a["tlc_states"], "api_checks_evaluated": a["nchecks"], "levelling": lv, "cov_band": cb,
            "exhaustive": False}


def covband(ctx):
    """law SetCovBand(k): the band written for --cov-band k equals the full matrix inside the band"""
    import gl, os, vlib
    inputs = []
    d = os.path.join(vlib.REPO, "tests/gama-local/input")
    for f in sorted(os.listdir(d)):
        if f.endswith(".gkf"):
            inputs.append(os.path.join(d, f))
    if ctx.quick:
        inputs = inputs[:: max(1, len(inputs) // 12)]
    jobs, meta = [], []
    for f in inputs:
        text = open(f, "rb").read()
        for k in (-1, 0, 1, 2, 5, 1000):
            jobs.append({"gkf": text, "args": ["--cov-band", str(k)], "want": ["xml"]})
            meta.append((f, k))
    runs = gl.run_many(ctx, jobs)
    full = {}
    n = 0
    for (f, k), r in zip(meta, runs):
        if k == -1:
            full[f] = r
    for (f, k), r in zip(meta, runs):
        base = full[f]
        if base.res is None or base.res.get("outcome") != "adjusted":
            continue
        n += 1
        if r.res is None or r.res.get("outcome") != "adjusted":
            ctx.violation("covband|outcome", "%s: --cov-band %d changes the outcome" % (f, k))
            continue
        dim = base.res["cov_dim"]
        exp_band = dim - 1 if k == -1 else min(k, dim - 1)
        if r.res["cov_dim"] != dim or r.res["cov_band"] != exp_band:
            ctx.violation("covband|band", "%s: --cov-band %d gives dim %s band %s, expected band %s" % (f, k, r.res["cov_dim"], r.res["cov_band"], exp_band))
            continue
        fm = gl.cov_full(base.res)
        try:
            bm = gl.cov_full(r.res)
        except StopIteration:
            ctx.violation("covband|count", "%s: --cov-band %d: too few <flt> elements" % (f, k))
            continue
        if len(r.res["cov"]) != len(bm):
            ctx.violation("covband|count", "%s: --cov-band %d: %d elements for dim %d band %d" % (f, k, len(r.res["cov"]), dim, exp_band))
        for key, v in bm.items():
            if abs(v - fm[key]) > 2e-6 * max(1.0, abs(fm[key])):
                ctx.violation("covband|value", "%s: --cov-band %d element %s = %r, full matrix has %r" % (f, k, key, v, fm[key]))
                break
    return {"networks": len(inputs), "runs": len(jobs), "compared": n}
