"""C20 - ill-posed networks are diagnosed, identically for every algorithm.
 (a) API level: LsqCases problems with a regularisation subset that does not resolve the defect
     must be refused by every solver entry point; flagged dependent unknowns must be truly
     dependent (|F| = defect and the null-space block G_F is regular - exact integer test);
 (b) levelling networks whose constrained heights do not resolve the defect must not be adjusted;
 (c) SurveySession: MakeFree(s) (no / too few / non-spanning / sufficient constraints) and
     Isolate (a point with a single determining element): expected outcome class from the
     specification, equal outcome, removed points and results for all four algorithms,
     no non-finite number in any output."""
import re
import lsq, levelling, sessions, gl, session
LEVEL = "exploration"
ALGS = ["envelope", "cholesky", "gso", "svd"]
NONFINITE = re.compile(r"(?<![A-Za-z])(nan|inf|-nan|-inf)(?![A-Za-z])", re.I)


def run(ctx):
    q = ctx.quick
    a = lsq.api_check(ctx, "C20:")
    lv = levelling.check(ctx, want=("C20",), max_networks=250 if q else 3000)
    r, ss = sessions.generate(ctx, "c20", {"Templates": '{"tri2d", "trav2d", "polar3d", "lev1d", "vec3d", "dist2d"}', "NoiseSet": "{1, 2}", "MaxEdits": 1,
                                           "EditKinds": '{"MakeFree", "Isolate"}', "KeepNet": 211 if q else 23, "KeepEdit": 1, "Seed": ctx.seed})
    ctx.note("SurveySession: %d ill-posed sessions" % len(ss))
    jobs, meta = [], []
    for si, s in enumerate(ss):
        sv = sessions.base_survey(s["net"])
        sv2 = session.apply_edit(sv, s["edits"][0]["e"])
        for alg in ALGS:
            jobs.append({"gkf": sv2.gkf(), "args": ["--algorithm", alg], "want": ["xml", "text"]})
            meta.append((si, alg, sv2))
    runs = gl.run_many(ctx, jobs)
    by = {}
    for (si, alg, sv2), run, job in zip(meta, runs, jobs):
        by.setdefault(si, []).append((alg, run, sv2, job))
    nill = 0
    for si, lst in by.items():
        e, law = ss[si]["edits"][0]["e"], ss[si]["edits"][0]["law"]
        posed = "illposed" if (e["k"] == "MakeFree" and not law["adjustable"]) else "wellposed"
        tag = "%s|%s%s|%s" % (ss[si]["net"]["t"], e["k"], e["s"], posed)
        classes = {}
        for alg, run, sv2, job in lst:
            cls = gl.classify(run)
            classes[alg] = cls
            blob = (run.xml or "") + (run.text or "") + run.out
            if cls in ("crash", "sanitizer", "hang"):
                ctx.violation("run|%s|%s" % (cls, tag), "gama-local %s --algorithm %s rc=%s\n%s" % (cls, alg, run.rc, run.out[-800:]), replay={"gkf": job["gkf"], "alg": alg})
            m = NONFINITE.search(blob)
            if m:
                ctx.violation("nonfinite|%s|%s" % (alg, tag), "non-finite number %r in the output of --algorithm %s" % (m.group(0), alg), replay={"gkf": job["gkf"], "alg": alg})
        if len(set(classes.values())) > 1:
            ctx.violation("outcome-differs|" + tag, "outcome differs between algorithms: %s" % classes, replay={"gkf": lst[0][3]["gkf"], "session": ss[si]})
            continue
        cls = list(classes.values())[0]
        if e["k"] == "MakeFree":
            if not law["adjustable"]:
                nill += 1
                if cls == "adjusted":
                    ctx.violation("adjusted-illposed|" + tag, "constraints do not resolve the datum defect but an adjustment is reported", replay={"gkf": lst[0][3]["gkf"]})
            elif cls != "adjusted":
                ctx.violation("refused-wellposed|" + tag, "constraints resolve the defect but the network is not adjusted (%s)\n%s" % (cls, lst[0][1].out[-500:]), replay={"gkf": lst[0][3]["gkf"]})
        if e["k"] == "Isolate" and cls != "adjusted":
            # the rest of the network is determined: dropping X must leave an adjustable network
            ctx.violation("refused-wellposed|" + tag, "a point with a single determining element makes the whole network unadjustable (%s)\n%s" % (cls, lst[0][1].out[-500:]), replay={"gkf": lst[0][3]["gkf"]})
        # same results for all algorithms
        if cls == "adjusted":
            base = session.project(lst[0][1].res, lst[0][2])
            for alg, run, sv2, job in lst[1:]:
                P = session.project(run.res, sv2)

                def report(chk, msg, alg=alg, job=job):
                    ctx.violation("alg-differs|%s|%s|%s" % (chk, alg, tag), "--algorithm %s differs from %s: %s" % (alg, lst[0][0], msg), replay={"gkf": job["gkf"], "alg": alg})
                session.check_law(base, P, {"k": "SetAlgorithm"}, {"coords": "same", "obs": "same", "stats": "same", "cov": "same"}, lst[0][2], sv2, report)
            if e["k"] == "Isolate":
                # the point with a single determining element must not appear among the adjusted points
                if "X" in base["pts"] and ("e" in base["pts"]["X"]):
                    ctx.violation("isolated-adjusted|" + tag, "point X is determined by a single distance but is listed as adjusted: %s" % base["pts"]["X"], replay={"gkf": lst[0][3]["gkf"]})
                txt = lst[0][1].text or ""
                if "X" not in txt:
                    ctx.violation("isolated-unreported|" + tag, "removed point X is not mentioned in the text output", replay={"gkf": lst[0][3]["gkf"]})
    if ss:
        ctx.sample({"net": ss[0]["net"]["t"], "edit": ss[0]["edits"][0]})
    ctx.assume("expected adjustability of MakeFree(s) comes from the datum-defect table in SurveySession.tla")
    return {"evaluations": a["cases"] * 8 + lv["runs"] + len(jobs), "distinct_nontrivial": a["summary"]["inadmissible"] + nill,
            "rule": "LsqCases cases with inadmissible subsets (API), levelling networks, and SurveySession sessions with MakeFree/Isolate edits x 4 algorithms; "
                    "non-trivial = the constraint set does not resolve the defect",
            "api_checks_evaluated": a["nchecks"], "levelling": lv, "sessions": len(ss), "tlc_states": a["tlc_states"] + r.distinct, "exhaustive": False}
