"""C18 - geodetic primitives round-trip: ellipsoidal coordinates, angles, bearings.
 (a) Literals.tla: deterministic acceptors of the documented float / integer / d-m-s literals;
     TLC enumerates every string over {digit + - . e blank other} up to MaxLen with the three
     verdicts, harness/drv_lit asks IsFloat / IsInteger / deg2gon (exact agreement);
 (b) Angles.tla: exact integer conversion gon -> degrees-minutes-seconds fields at 0..3 decimals;
     gon2deg must print exactly these fields (never 60 seconds / minutes), deg2gon(gon2deg(g)) = g
     within the printed precision;
 (c) Geodesy.tla: grid of all ellipsoids x latitudes (poles) x longitudes (+-180) x heights:
     round trip within 1 mm (0.2 m beyond 100 km height: the documented bound), exact anchors,
     bearing / distance antisymmetric / symmetric and consistent with coordinate differences."""
import json, math, os, re
import vlib
LEVEL = "exploration"


def gen(ctx, module, consts, invariants=("Emit",), timeout=1500):
    cfg = os.path.join(vlib.SPEC, "_%s_C18.cfg" % module)
    with open(cfg, "w") as f:
        f.write("SPECIFICATION Spec\nCONSTANTS\n" + "".join("  %s = %s\n" % kv for kv in consts.items()) + "".join("INVARIANT %s\n" % i for i in invariants) + "CHECK_DEADLOCK FALSE\n")
    r = vlib.tlc(module, os.path.basename(cfg), timeout=timeout)
    os.remove(cfg)
    if r.outcome == "invariant":
        return r
    if r.outcome != "ok":
        raise vlib.ModelFailure("%s: %s\n%s" % (module, r.outcome, r.out[-2000:]))
    return r


def run(ctx):
    q = ctx.quick
    bdir = vlib.build("plain", ["drv_lit", "drv_geo"])
    # ---------------------------------------------------------------- (a) literals
    rl = gen(ctx, "Literals", {"MaxLen": 5 if q else 6, "Keep": 1, "Seed": ctx.seed})
    lits = sorted(rl.cases, key=lambda c: json.dumps(c["s"]))
    lp = os.path.join(ctx.outdir, "lit.txt")
    variants = []
    with open(lp, "w") as f:
        for c in lits:
            for dg, ot in (("7", "a"), ("0", "E")):           # two concretisations of 'digit' and 'other'; e/E both exponent markers
                s = "".join(c["s"]).replace("d", dg).replace("x", ot) if ot != "E" else "".join(c["s"]).replace("d", dg).replace("x", "q").replace("e", "E")
                if s == "" or "\n" in s:
                    continue
                f.write("L " + s + "\n")
                variants.append((c, s))
    rc, out = vlib.sh([os.path.join(bdir, "drv_lit"), lp], timeout=1200)
    recs = [json.loads(l) for l in out.splitlines() if l.startswith("{")]
    if rc != 0 or len(recs) != len(variants):
        ctx.violation("drv_lit|crash", "drv_lit rc=%s answered %d of %d literals" % (rc, len(recs), len(variants)))
    nacc = 0
    for (c, s), r_ in zip(variants, recs):
        for key, name, fn in (("f", "float", "IsFloat"), ("i", "integer", "IsInteger"), ("a", "dms", "deg2gon")):
            exp = bool(c[key])
            got = bool(r_[key])
            if exp:
                nacc += 1
            if exp != got:
                shape = "".join(c["s"])
                ctx.violation("literal|%s|%s" % (name, "accepts-invalid" if got else "rejects-valid"), "%s(%r) = %s, the documented %s grammar says %s (shape %s)" % (fn, s.replace("_", " "), got, name, exp, shape),
                              replay={"string": s})
    # ---------------------------------------------------------------- (b) angles
    ra = gen(ctx, "Angles", {"Keep": 1, "Seed": ctx.seed}, invariants=("Emit", "FieldsValid"))
    if ra.outcome == "invariant":
        ctx.violation("model|Angles|" + str(ra.violated), ra.trace_text[:1200])
    ap = os.path.join(ctx.outdir, "ang.txt")
    alist = []
    with open(ap, "w") as f:
        for c in sorted(ra.cases, key=lambda c: c["cc"]):
            for p in range(4):
                f.write("G %.4f %d\n" % (c["cc"] / 1e4, p))
                alist.append((c, p))
    rc, out = vlib.sh([os.path.join(bdir, "drv_lit"), ap], timeout=600)
    recs = [json.loads(l) for l in out.splitlines() if l.startswith("{")]
    for (c, p), r_ in zip(alist, recs):
        fl = c["fields"][str(p)] if isinstance(c["fields"], dict) else c["fields"][p]
        if fl["tie"]:
            continue
        m = re.match(r"^(-?)(\d+)-(\d+)-(\d+)(?:\.(\d+))?$", r_["dms"].strip())
        if not m:
            ctx.violation("angle|format", "gon2deg(%s, 3, %d) = %r is not d-m-s" % (r_["gon"], p, r_["dms"]))
            continue
        deg, mi = int(m.group(2)), int(m.group(3))
        sec = int(m.group(4)) * 10 ** p + (int(m.group(5)) if m.group(5) else 0)
        neg = m.group(1) == "-"
        if (deg, mi, sec) != (fl["deg"], fl["min"], fl["sec"]) or (neg != (c["cc"] < 0) and (deg, mi, sec) != (0, 0, 0)):
            ctx.violation("angle|fields", "gon2deg(%s gon, prec %d) = %r, exact fields are %d-%02d-%s (in 1e-%d seconds)" % (c["cc"] / 1e4, p, r_["dms"], fl["deg"], fl["min"], fl["sec"], p),
                          replay={"cc": c["cc"], "prec": p})
        # signed comparison; a value that rounds to 0-00-00 has no sign to carry
        if not r_["ok"] or abs(r_["back"] - (c["cc"] / 1e4 if (deg, mi, sec) != (0, 0, 0) else 0.0)) > 0.5 * 10 ** (-p) / 3240 * 1.0001 + 1e-12:
            ctx.violation("angle|roundtrip", "deg2gon(gon2deg(%s gon, prec %d) = %r) = %r" % (c["cc"] / 1e4, p, r_["dms"], r_["back"]))
    # ---- latitude() / longitude() print the same angle in degrees-minutes-seconds (used for the geodetic coordinates of gama-g3)
    lp = os.path.join(ctx.outdir, "latlong.txt")
    llist = []
    with open(lp, "w") as f:
        for c in sorted(ra.cases, key=lambda c: c["cc"]):
            if abs(c["cc"]) > 2000000:
                continue
            for p in range(4):
                f.write("T %.4f %d\n" % (c["cc"] / 1e4, p))
                llist.append((c, p))
    rc, out = vlib.sh([os.path.join(bdir, "drv_lit"), lp], timeout=600)
    recs = [json.loads(l) for l in out.splitlines() if l.startswith("{")]
    for (c, p), r_ in zip(llist, recs):
        fl = c["fields"][str(p)] if isinstance(c["fields"], dict) else c["fields"][p]
        if fl["tie"]:
            continue
        for which in ("lat", "lon"):
            m = re.match(r"^\s*(-?)(\d+)-(\d+)-(\d+)(?:\.(\d+))?$", r_[which])
            if not m:
                ctx.violation("latlong|format", "%s(%s gon, prec %d) = %r is not d-m-s" % (which, c["cc"] / 1e4, p, r_[which]))
                continue
            deg, mi = int(m.group(2)), int(m.group(3))
            sec = int(m.group(4)) * 10 ** p + (int(m.group(5)) if m.group(5) else 0)
            neg = m.group(1) == "-"
            if (deg, mi, sec) != (fl["deg"], fl["min"], fl["sec"]) or (neg != (c["cc"] < 0) and (deg, mi, sec) != (0, 0, 0)):
                ctx.violation("latlong|fields", "%s(%s gon, prec %d) = %r, exact fields are %s%d-%02d-%s (in 1e-%d seconds)" % (
                    which, c["cc"] / 1e4, p, r_[which], "-" if c["cc"] < 0 else "", fl["deg"], fl["min"], fl["sec"], p), replay={"cc": c["cc"], "prec": p})
    # ---------------------------------------------------------------- (c) geodesy
    rg = gen(ctx, "Geodesy", {"NEllipsoids": 48, "Keep": 7 if q else 1, "Seed": ctx.seed})
    gp = os.path.join(ctx.outdir, "geo.txt")
    glist = []
    with open(gp, "w") as f:
        for c in sorted(rg.cases, key=lambda c: json.dumps(c, sort_keys=True)):
            g = c["g"]
            if "el" in g:
                f.write("E %d %d %d %d\n" % (g["el"], g["lat"], g["lon"], g["h"]))
            else:
                f.write("B %d %d %d %d\n" % (g["bx"], g["by"], g["bx"] + g["dx"], g["by"] + g["dy"]))
            glist.append(c)
    nb = len([c for c in glist if "el" not in c["g"]])
    ctx.add("bearing_cases", nb)
    ctx.add("ellipsoid_cases", len(glist) - nb)
    if nb == 0 or nb == len(glist):       # a thinning rule that removes one whole family would make its laws vacuous
        raise vlib.ModelFailure("Geodesy.tla emitted %d bearing and %d ellipsoid cases" % (nb, len(glist) - nb))
    rc, out = vlib.sh([os.path.join(bdir, "drv_geo"), gp], timeout=1200)
    recs = [json.loads(l) for l in out.splitlines() if l.startswith("{")]
    if rc != 0 or len(recs) != len(glist):
        ctx.violation("drv_geo|crash", "drv_geo rc=%s answered %d of %d" % (rc, len(recs), len(glist)))
    for c, r_ in zip(glist, recs):
        g = c["g"]
        if r_["t"] == "E":
            if r_.get("rot", 0) > 1e-12:
                ctx.violation("rotation|e3", "R_3 at (B, L) = (%s, %s) deviates from the north-east-up frame by %r" % (g["lat"], g["lon"], r_["rot"]))
            tol = 1e-3 if g["h"] <= 100000 else 0.2
            tag = "%s|h%s" % ("pole" if abs(g["lat"]) == 90 else "gen", "far" if g["h"] > 100000 else "near")
            if any(isinstance(v, str) for v in r_["xyz"] + r_["xyz2"] + r_["blh"]):
                ctx.violation("ellipsoid|nonfinite|" + tag, "ellipsoid %s: (B, L, H) = (%d, %d, %d): xyz %s -> blh %s -> xyz %s" % (r_["name"], g["lat"], g["lon"], g["h"], r_["xyz"], r_["blh"], r_["xyz2"]))
                continue
            d = math.dist(r_["xyz"], r_["xyz2"])
            tag = "%s|h%s" % ("pole" if abs(g["lat"]) == 90 else "gen", "far" if g["h"] > 100000 else "near")
            if not (d <= tol):
                ctx.violation("ellipsoid|roundtrip|" + tag, "ellipsoid %s: (B, L, H) = (%d, %d, %d): position after the round trip is %g m off" % (r_["name"], g["lat"], g["lon"], g["h"], d))
            if abs(r_["blh"][2] - g["h"]) > tol or abs(r_["blh"][0] - g["lat"]) > 1e-7 + (1e-5 if g["h"] > 100000 else 0):
                ctx.violation("ellipsoid|blh|" + tag, "ellipsoid %s: (B, L, H) = (%d, %d, %d) comes back as %s" % (r_["name"], g["lat"], g["lon"], g["h"], r_["blh"]))
            if abs(g["lat"]) != 90 and abs(((r_["blh"][1] - g["lon"] + 180) % 360) - 180) > 1e-9:
                ctx.violation("ellipsoid|lon|" + tag, "ellipsoid %s: longitude %d comes back as %r" % (r_["name"], g["lon"], r_["blh"][1]))
            if c["anchor"] == "equator0" and math.dist(r_["xyz"], [r_["a"] + g["h"], 0, 0]) > 1e-6:
                ctx.violation("ellipsoid|anchor_equator", "ellipsoid %s: blh2xyz(0, 0, %d) = %s, expected (a + H, 0, 0) with a = %r" % (r_["name"], g["h"], r_["xyz"], r_["a"]))
            if c["anchor"] in ("north", "south") and math.dist(r_["xyz"], [0, 0, (1 if c["anchor"] == "north" else -1) * (r_["b"] + g["h"])]) > 1e-6:
                ctx.violation("ellipsoid|anchor_pole", "ellipsoid %s: blh2xyz(+-90, %d, %d) = %s, expected (0, 0, +-(b + H)) with b = %r" % (r_["name"], g["lon"], g["h"], r_["xyz"], r_["b"]))
        else:
            (b1, d1), (b2, d2) = r_["ab"], r_["ba"]
            dx, dy = g["dx"], g["dy"]
            if abs(d1 - d2) > 1e-12 or abs(d1 - math.hypot(dx, dy)) > 1e-12:
                ctx.violation("bearing|distance", "distance %s vs %s for offset (%d, %d)" % (d1, d2, dx, dy))
            if abs(((b2 - b1 - math.pi + math.pi) % (2 * math.pi)) - math.pi) > 1e-12:
                ctx.violation("bearing|antisymmetry", "bearing(a,b) = %r, bearing(b,a) = %r for offset (%d, %d)" % (b1, b2, dx, dy))
            if abs(d1 * math.cos(b1) - dx) > 1e-9 or abs(d1 * math.sin(b1) - dy) > 1e-9 or not (0 <= b1 < 2 * math.pi + 1e-15):  # consistency of sine / cosine; the range itself is the next law
                ctx.violation("bearing|consistency", "bearing %r distance %r are not consistent with dx = %d, dy = %d" % (b1, d1, dx, dy))
            # range [0, 2 pi): lattice offsets are exact, so atan2 is either exactly 0 or at least 0.3 rad away from it and the
            # normalisation s + 2 pi cannot round to 2 pi; a sight due north has bearing 0, never 2 pi
            for bb, sx, sy in ((b1, dx, dy), (b2, -dx, -dy)):
                if (sx or sy) and not (0 <= bb < 2 * math.pi):
                    ctx.violation("bearing|range", "bearing %r for offset (%d, %d) is outside [0, 2 pi)" % (bb, sx, sy))
                if sy == 0 and sx > 0 and bb != 0:
                    ctx.violation("bearing|range", "bearing of a sight due north (offset (%d, 0)) is %r, not 0" % (sx, bb))
    ctx.sample({"literal": lits[len(lits) // 2]})
    ctx.sample({"angle": ra.cases[0]})
    ctx.assume("blh2xyz itself has no independent definition in TLA+ (trigonometry): mutually inverse but wrong conversions would be caught by the exact anchors only")
    return {"evaluations": len(variants) + len(alist) + len(glist), "distinct_nontrivial": nacc + len(alist) + len(glist),
            "rule": "all strings over the 7-symbol alphabet up to length %d (two concretisations each); angle catalogue x 4 precisions; ellipsoid x lat x lon x height grid and "
                    "lattice offsets; non-trivial = accepted literal, or any angle / grid point" % (5 if q else 6),
            "tlc_states": rl.distinct + ra.distinct + rg.distinct, "exhaustive": True}
