"""C10 - correlated observations are weighted by their full covariance matrix.
 (a) API + levelling networks: LsqCases problems with banded / full covariance blocks (incl. wide
     band blocks) solved by every entry point and through gama-local satisfy A'P(Ax-b) = 0 with the
     exact P = inv(C) from TLC (the 'mathematically equivalent problem');
 (b) ReplaceCovByStdev: a diagonal cov-mat equals the same sigmas given per observation;
 (c) ExcludeVsDelete inside a correlated cluster: a blundered height difference is excluded and the
     result equals the input with the observation deleted and the sub-matrix given explicitly;
 (d) malformed matrices (GkfClusters.tla: dim+-1, not positive definite, zero variance, too few /
     many elements, band >= dim, non-numeric) are refused with a located diagnostic, for every
     --algorithm."""
import copy, math
import lsq, levelling, gl, session
import importlib
LEVEL = "exploration"
ALGS = ["envelope", "cholesky", "gso", "svd"]


def run(ctx):
    q = ctx.quick
    a = lsq.api_check(ctx, "C01:")
    r = lsq.gen_cases(ctx, "_gen_c10.cfg", lsq.tier_consts(ctx))
    corr = [(c, l) for c, l in zip(r.cases, r.lev) if l and c["adm"] and any(b["band"] > 0 for b in c["blocks"])]
    lv = levelling.check(ctx, want=("C01",), cases=[c for c, l in corr], levs=[l for c, l in corr], max_networks=300 if q else 1200, alias={"C01": "C10"})
    # ---- (b) diagonal cov-mat == per-observation sigma ; (c) exclusion inside a correlated cluster
    jobs, meta = [], []
    pool = [(c, l) for c, l in zip(r.cases, r.lev) if l and c["adm"] and c["rank"] == c["n"] and c["m"] >= 4]
    pool = pool[:: max(1, len(pool) // (60 if q else 300))]
    for k, (c, l) in enumerate(pool):
        # (b) diagonal layout
        cd = copy.deepcopy(c)
        cd["blocks"] = [{"dim": c["m"], "band": 0, "C": [[(4 if i == j and i % 2 else 1) if i == j else 0 for j in range(c["m"])] for i in range(c["m"])], "W": [], "det": 0}]
        s_cov = levelling.survey_of(cd, l)
        s_sd = copy.deepcopy(s_cov)
        for cl in s_sd["clusters"]:
            cov = cl.pop("cov")
            for i, o in enumerate(cl["obs"]):
                o["stdev"] = "%.6f" % math.sqrt(float(cov["el"][i]))
        for alg in ALGS[: 2 if q else 4]:
            jobs.append({"gkf": gl.write_gkf(s_cov), "args": ["--algorithm", alg], "want": ["xml"]}); meta.append(("diag", k, alg, "cov"))
            jobs.append({"gkf": gl.write_gkf(s_sd), "args": ["--algorithm", alg], "want": ["xml"]}); meta.append(("diag", k, alg, "sd"))
        # (c) blunder in a correlated block of dim >= 3
        off = 0
        for b in c["blocks"]:
            if b["dim"] >= 3 and b["band"] >= 1:
                j = off + 1                                   # second observation of the block
                ce = copy.deepcopy(c)
                se = levelling.survey_of(ce, l)
                # find the observation in the survey and add 5 m to its value
                cnt = 0
                for cl in se["clusters"]:
                    for o in cl["obs"]:
                        if cnt == j:
                            o["val"] = "%.4f" % (float(o["val"]) + 5.0)
                        cnt += 1
                sd_ = levelling.survey_of(ce, l)
                cnt = 0
                for cl in sd_["clusters"]:
                    keep = []
                    idx = []
                    for i, o in enumerate(cl["obs"]):
                        if cnt != j:
                            keep.append(o); idx.append(i)
                        cnt += 1
                    if len(keep) != len(cl["obs"]):
                        d0, bw, el = cl["cov"]["dim"], cl["cov"]["band"], cl["cov"]["el"]
                        full, it = {}, iter(el)
                        for i in range(d0):
                            for jj in range(i, min(d0, i + bw + 1)):
                                full[(i, jj)] = next(it)
                        n2 = len(idx)
                        el2 = [full.get((idx[x], idx[y]), 0) for x in range(n2) for y in range(x, n2)]
                        cl["cov"] = {"dim": n2, "band": n2 - 1, "el": el2}
                        cl["obs"] = keep
                for alg in ALGS:
                    jobs.append({"gkf": gl.write_gkf(se), "args": ["--algorithm", alg], "want": ["xml"]}); meta.append(("excl", k, alg, "blunder"))
                    jobs.append({"gkf": gl.write_gkf(sd_), "args": ["--algorithm", alg], "want": ["xml"]}); meta.append(("excl", k, alg, "deleted"))
                break
            off += b["dim"]
    runs = gl.run_many(ctx, jobs)
    res = {}
    for (kind, k, alg, var), run, job in zip(meta, runs, jobs):
        res[(kind, k, alg, var)] = (run, job)
    npairs = 0
    for (kind, k, alg, var), (run, job) in list(res.items()):
        if var not in ("cov", "blunder"):
            continue
        other = res.get((kind, k, alg, "sd" if var == "cov" else "deleted"))
        if other is None:
            continue
        run2, job2 = other
        npairs += 1
        tag = "%s|%s" % (kind, alg)
        c1, c2 = gl.classify(run), gl.classify(run2)
        if c1 != "adjusted" or c2 != "adjusted":
            if c1 != c2 or kind == "diag":
                ctx.violation("outcome|" + tag, "variants end differently: %s vs %s\n%s" % (c1, c2, run.out[-300:]), replay={"a": job["gkf"], "b": job2["gkf"]})
            continue
        A, B = run.res, run2.res
        bad = []
        if kind == "excl" and len(A["obs"]) != len(B["obs"]):
            bad.append("observation count %d vs %d (the blundered observation was not excluded?)" % (len(A["obs"]), len(B["obs"])))
        if A["dof"] != B["dof"]:
            bad.append("dof %s vs %s" % (A["dof"], B["dof"]))
        if not levelling.close(A["pvv"], B["pvv"], 5e-6, B["pvv"]):
            bad.append("sum of squares %r vs %r" % (A["pvv"], B["pvv"]))
        for p_, q_ in zip(A["adjusted"], B["adjusted"]):
            for kk in p_:
                if kk != "id" and abs(p_[kk] - q_.get(kk, 1e9)) > 2e-7:
                    bad.append("adjusted %s %s: %r vs %r" % (p_["id"], kk, p_[kk], q_.get(kk)))
        for x, y in zip(A["cov"], B["cov"]):
            if abs(x - y) > 5e-6 * max(1.0, abs(y)):
                bad.append("cov-mat %r vs %r" % (x, y))
                break
        if bad:
            ctx.violation("%s-differs|%s" % (kind, alg), "%s: %s" % ({"diag": "diagonal cov-mat vs per-observation stdev", "excl": "excluded observation vs deleted observation with explicit sub-matrix"}[kind], "; ".join(bad[:4])),
                          replay={"a": job["gkf"], "b": job2["gkf"]})
    # ---- (d) malformed matrices, every algorithm
    c11 = importlib.import_module("checks.c11")
    cl = c11.cluster_docs(ctx, keep=5 if q else 3)
    ctx.assume("exact weights from TLC (adjugate/determinant) or, for wide band blocks, a dense Cholesky factor verified against the exact C")
    return {"evaluations": a["cases"] * 8 + lv["runs"] + len(jobs) + cl["documents"], "distinct_nontrivial": len(corr) + cl["refused_by_model"],
            "rule": "LsqCases problems with correlated blocks (API + levelling networks through gama-local), paired variants (diagonal cov vs stdev; blunder in a "
                    "correlated block vs deleted observation with explicit sub-matrix) x algorithms, and all cluster documents of GkfClusters.tla",
            "api_checks_evaluated": a["nchecks"], "levelling": lv, "paired_variants": npairs, "cluster_documents": cl, "tlc_states": a["tlc_states"], "exhaustive": False}
