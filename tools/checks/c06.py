"""C06 - consistent observations reproduce the network they were derived from.
Networks are built by SurveySession.tla from templates in which every unknown point is
determined by construction; observation values are computed from the true lattice
coordinates (textbook formulas, trusted). Truth law: adjusted = generating coordinates,
residuals 0 - for every axes/angle convention, circle orientation, with approximate
coordinates given, omitted (acord) or perturbed, with/without instrument heights, with
further consistent observations added, for all four algorithms."""
import sessions
LEVEL = "exploration"
NOISE = "{0}"


def run(ctx):
    q = ctx.quick
    r0, base = sessions.generate(ctx, "c06a", {"Templates": sessions.ALL_TEMPLATES, "NoiseSet": NOISE, "MaxEdits": 0, "EditKinds": "{}",
                                               "KeepNet": 47 if q else 5, "KeepEdit": 1, "Seed": ctx.seed})
    base = [s for s in base if s["net"]["noise"] == 0]
    r1, ed = sessions.generate(ctx, "c06b", {"Templates": sessions.ALL_TEMPLATES, "NoiseSet": NOISE, "MaxEdits": 1,
                                             "EditKinds": '{"OmitApprox", "PerturbApprox", "AttachHeights", "AddConsistentObs", "SetAlgorithm", "Translate"}',
                                             "KeepNet": 211 if q else 47, "KeepEdit": 2 if q else 1, "Seed": ctx.seed})
    ed = [s for s in ed if s["net"]["noise"] == 0]
    # the result must not depend on the approximate coordinates supplied: also for noisy observations, where every
    # linearization iteration moves the approximate coordinates by the corrections of the previous one
    r2, pn = sessions.generate(ctx, "c06c", {"Templates": sessions.ALL_TEMPLATES, "NoiseSet": "{1, 2, 3}", "MaxEdits": 1, "EditKinds": '{"PerturbApprox"}',
                                             "KeepNet": 211 if q else 47, "KeepEdit": 1, "Seed": ctx.seed})
    ctx.note("SurveySession: %d consistent base networks, %d one-edit sessions, %d perturbed noisy networks" % (len(base), len(ed), len(pn)))
    st0, _, _ = sessions.run_sessions(ctx, base, truth=True, laws=False)
    st1, _, _ = sessions.run_sessions(ctx, ed, truth=True, laws=True)
    st2, _, _ = sessions.run_sessions(ctx, pn, truth=False, laws=True, sigprefix="noisy_")
    for k in ("runs", "truth_checks", "adjusted"):
        st1[k] += st2[k]
    if ed:
        ctx.sample({"net": {k: ed[0]["net"][k] for k in ("t", "axes", "lefthanded", "orient")}, "edit": ed[0]["edits"][0]["e"],
                    "obs": ed[0]["net"]["obs"][:4]})
    ctx.assume("observation values are computed from the true coordinates by textbook formulas in tools/session.py (trusted, 1e-10)")
    ctx.assume("tolerance 2e-6 m / 2e-7 gon on printed results")
    n = st0["truth_checks"] + st1["truth_checks"]
    return {"evaluations": st0["runs"] + st1["runs"], "distinct_nontrivial": len(base) + len(ed) + len(pn),
            "rule": "final states of SurveySession.tla with noise = 0 (thinned by KeepNet/KeepEdit/Seed); every network is distinct in template, "
                    "optional observations, axes, angle sense or circle orientation; non-trivial = all (each has >= 2 unknown points)",
            "tlc_states": r0.distinct + r1.distinct + r2.distinct, "law_checks": st1["law_checks"] + st2["law_checks"], "truth_checks": n, "adjusted": st0["adjusted"] + st1["adjusted"], "exhaustive": False}
