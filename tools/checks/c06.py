"""C06 - consistent observations reproduce the network they were derived from.
Networks are built by SurveySession.tla from templates in which every unknown point is
determined by construction; observation values are computed from the true lattice
coordinates (textbook formulas, trusted). Truth law: adjusted = generating coordinates,
residuals 0 - for every axes/angle convention, circle orientation, with approximate
coordinates given, omitted (acord) or perturbed, with/without instrument heights, with
further consistent observations added, for all four algorithms.
AcordModel.tla: networks built by TLC from the constructions of the documented strategy for approximate
coordinates (polar by direction, angle or azimuth, intersection of directions or of an azimuth with a direction, resection by directions or angles, trilateration,
two distances with a bearing, inserted traverse, in every order over 4-5 points, plus further observations); the model's closure says which points must be positioned; they are
written without approximate coordinates, under names and document orders that hide the construction order.
AcordHeights.tla: heights propagate along levelled differences, zenith angles (with slope distance, with
horizontal distance, or alone between known positions) and vectors in either direction; the closure is reachability whatever the kinds along the path; every spanning tree over
4-5 points in every mixture of kinds and directions, heights omitted.
Acord3D.tla: spatial networks in which position and height depend on each other (slope distance reduced by a
zenith angle or by two known heights, zenith angle alone between known positions, vectors): two-sorted closure;
construction histories over four points plus one further observation of any kind."""
import sessions, acordnets
LEVEL = "exploration"
NOISE = "{0}"


def run(ctx):
    q = ctx.quick
    r0, base = sessions.generate(ctx, "c06a", {"Templates": sessions.ALL_TEMPLATES, "NoiseSet": NOISE, "MaxEdits": 0, "EditKinds": "{}",
                                               "KeepNet": 47 if q else 5, "KeepEdit": 1, "Seed": ctx.seed})
    base = [s for s in base if s["net"]["noise"] == 0]
    r1, ed = sessions.generate(ctx, "c06b", {"Templates": sessions.ALL_TEMPLATES, "NoiseSet": NOISE, "MaxEdits": 1,
                                             "EditKinds": '{"OmitApprox", "PerturbApprox", "AttachHeights", "AddConsistentObs", "SetAlgorithm", "Translate"}',
                                             "KeepNet": 211 if q else 47, "KeepEdit": 2 if q else 1, "Seed": ctx.seed})
    ed = [s for s in ed if s["net"]["noise"] == 0]
    # the result must not depend on the approximate coordinates supplied: also for noisy observations, where every
    # linearization iteration moves the approximate coordinates by the corrections of the previous one
    r2, pn = sessions.generate(ctx, "c06c", {"Templates": sessions.ALL_TEMPLATES, "NoiseSet": "{1, 2, 3}", "MaxEdits": 1, "EditKinds": '{"PerturbApprox"}',
                                             "KeepNet": 211 if q else 47, "KeepEdit": 1, "Seed": ctx.seed})
    # omitted approximate coordinates under another order of points / clusters / observations and under other point names: PointData is a map
    # ordered by id and the approximate-coordinate algorithms walk clusters in document order
    r4, op = sessions.generate(ctx, "c06k", {"Templates": sessions.ALL_TEMPLATES, "NoiseSet": NOISE, "MaxEdits": 2, "EditKinds": '{"OmitApprox", "Permute", "Rename"}',
                                             "KeepNet": 211 if q else 11, "KeepEdit": 1, "Seed": ctx.seed})
    op = [s for s in op if s["edits"][0]["e"]["k"] == "OmitApprox" and s["edits"][1]["e"]["k"] in ("Permute", "Rename")]
    op = op[:: max(1, len(op) // (300 if q else 6000))]
    ctx.note("SurveySession: %d consistent base networks, %d one-edit sessions, %d perturbed noisy networks, %d omitted-then-permuted / renamed sessions" % (len(base), len(ed), len(pn), len(op)))
    st0, _, _ = sessions.run_sessions(ctx, base, truth=True, laws=False)
    st1, _, _ = sessions.run_sessions(ctx, ed, truth=True, laws=True)
    st2, _, _ = sessions.run_sessions(ctx, pn, truth=False, laws=True, sigprefix="noisy_")
    st5, _, _ = sessions.run_sessions(ctx, op, truth=True, laws=True, sigprefix="omitperm_")
    for k in ("runs", "truth_checks", "adjusted"):
        st1[k] += st2[k] + st5[k]
    st1["law_checks"] += st5["law_checks"]
    # approximate coordinates: every construction history of AcordModel.tla
    K1, K2 = '{"polar", "inter", "resect", "trilat", "trav"}', '{"polar", "polarA", "resectA", "ddb", "fs2"}'
    KALL = '{"polar", "polarA", "polarZ", "inter", "interZ", "resect", "resectA", "trilat", "ddb", "fs2", "trav"}'
    if q:
        ra, ca = acordnets.generate(ctx, "c06d", {"NP": 5, "MaxExtra": 0, "Kinds": K1, "Keep": 211, "Seed": ctx.seed})
        ra2, ca2 = acordnets.generate(ctx, "c06f", {"NP": 5, "MaxExtra": 0, "Kinds": K2, "Keep": 499, "Seed": ctx.seed})
        # azimuths: two small families instead of K3 (670 000 states)
        ra3, ca3 = acordnets.generate(ctx, "c06g", {"NP": 5, "MaxExtra": 0, "Kinds": '{"polarZ", "inter"}', "Keep": 199, "Seed": ctx.seed})
        ra4, ca4 = acordnets.generate(ctx, "c06j", {"NP": 5, "MaxExtra": 0, "Kinds": '{"polarZ", "interZ"}', "Keep": 307, "Seed": ctx.seed})
        ca, ra.distinct = ca + ca2 + ca3 + ca4, ra.distinct + ra2.distinct + ra3.distinct + ra4.distinct
        rb, cb = acordnets.generate(ctx, "c06e", {"NP": 4, "MaxExtra": 1, "Kinds": KALL, "Keep": 307, "Seed": ctx.seed})
    else:
        ra, ca = acordnets.generate(ctx, "c06d", {"NP": 5, "MaxExtra": 0, "Kinds": KALL, "Keep": 53, "Seed": ctx.seed})
        rb, cb = acordnets.generate(ctx, "c06e", {"NP": 4, "MaxExtra": 2, "Kinds": KALL, "Keep": 211, "Seed": ctx.seed})
    sta = acordnets.run(ctx, ca, algs=(None,) if q else (None, "gso", "svd", "cholesky"))
    stb = acordnets.run(ctx, cb, algs=(None,) if q else (None, "gso", "svd", "cholesky"))
    # heights: every spanning tree of levelled differences, zenith angle + slope distance pairs and vectors, in both directions
    KH = '{"dh", "zs", "zd", "za", "vec"}'
    if q:
        rh, ch = acordnets.generate(ctx, "c06h", {"NP": 4, "MaxExtra": 0, "Kinds": KH, "Keep": 47, "Seed": ctx.seed}, module="AcordHeights")
        rh2, ch2 = acordnets.generate(ctx, "c06i", {"NP": 4, "MaxExtra": 1, "Kinds": '{"dh", "zs", "vec"}', "Keep": 997, "Seed": ctx.seed}, module="AcordHeights")
    else:
        rh, ch = acordnets.generate(ctx, "c06h", {"NP": 4, "MaxExtra": 1, "Kinds": KH, "Keep": 499, "Seed": ctx.seed}, module="AcordHeights", timeout=3000)
        rh2, ch2 = acordnets.generate(ctx, "c06i", {"NP": 5, "MaxExtra": 0, "Kinds": '{"zs", "vec"}', "Keep": 1999, "Seed": ctx.seed}, module="AcordHeights", timeout=3000)
    ch, rh.distinct = ch + ch2, rh.distinct + rh2.distinct
    sth = acordnets.run(ctx, ch, algs=(None,) if q else (None, "gso"), heights=True)
    ctx.note("AcordHeights: %d link histories (%d states), %d runs, %d heights derived" % (len(ch), rh.distinct, sth["runs"], sth["points_checked"]))
    # positions and heights feeding each other (spatial networks, nothing but the fixed points given)
    K3D = '{"polar3", "polar3b", "polardh", "polarza", "interza", "vec", "trilatdh"}'
    if q:
        r3, c3 = acordnets.generate(ctx, "c06s", {"NP": 4, "Kinds": K3D, "MaxExtra": 0, "Keep": 13, "Seed": ctx.seed}, module="Acord3D")
        r3b, c3b = acordnets.generate(ctx, "c06t", {"NP": 4, "Kinds": '{"polar3b", "polardh", "vec"}', "MaxExtra": 1, "Keep": 211, "Seed": ctx.seed}, module="Acord3D")
        c3, r3.distinct = c3 + c3b, r3.distinct + r3b.distinct
    else:
        r3, c3 = acordnets.generate(ctx, "c06s", {"NP": 4, "Kinds": K3D, "MaxExtra": 1, "Keep": 23, "Seed": ctx.seed}, module="Acord3D")
    st3d = acordnets.run(ctx, c3, algs=(None,), spatial=True)
    ctx.note("Acord3D: %d construction histories (%d states), %d runs, %d points positioned in x, y, z" % (len(c3), r3.distinct, st3d["runs"], st3d["points_checked"]))
    # a sample of all three families through the sanitizer build
    step = 15 if q else 3
    sts = [acordnets.run(ctx, ca[::step * 3], kind="asan"), acordnets.run(ctx, ch[::step * 5], heights=True, kind="asan"),
           acordnets.run(ctx, c3[::step * 2], spatial=True, kind="asan")]
    san_runs = sum(x["runs"] for x in sts)
    ctx.note("sanitizer build: %d runs of AcordModel / AcordHeights / Acord3D networks" % san_runs)
    ctx.note("AcordModel: %d construction histories over 5 points (%d states), %d over 4 points with further observations (%d states); %d runs, %d points positioned"
             % (len(ca), ra.distinct, len(cb), rb.distinct, sta["runs"] + stb["runs"], sta["points_checked"] + stb["points_checked"]))
    if ed:
        ctx.sample({"net": {k: ed[0]["net"][k] for k in ("t", "axes", "lefthanded", "orient")}, "edit": ed[0]["edits"][0]["e"],
                    "obs": ed[0]["net"]["obs"][:4]})
    ctx.assume("observation values are computed from the true coordinates by textbook formulas in tools/session.py (trusted, 1e-10)")
    ctx.assume("tolerance 2e-6 m / 2e-7 gon on printed results")
    n = st0["truth_checks"] + st1["truth_checks"]
    return {"evaluations": st0["runs"] + st1["runs"] + sta["runs"] + stb["runs"] + sth["runs"] + st3d["runs"], "distinct_nontrivial": len(base) + len(ed) + len(pn) + len(op) + len(ca) + len(cb) + len(ch) + len(c3),
            "acord_model": {"histories_5pts": len(ca), "histories_4pts_extra": len(cb), "runs": sta["runs"] + stb["runs"], "adjusted": sta["adjusted"] + stb["adjusted"],
                            "points_positioned": sta["points_checked"] + stb["points_checked"], "by_construction": sta["by_construction"],
                            "tlc_invariants": "Determined (constructed points are in the closure), Monotone (added observations never shrink the closure)"},
            "sanitizer_runs": san_runs,
            "acord_3d": {"histories": len(c3), "runs": st3d["runs"], "adjusted": st3d["adjusted"], "points_positioned": st3d["points_checked"],
                         "by_construction": st3d["by_construction"]},
            "acord_heights": {"histories": len(ch), "runs": sth["runs"], "adjusted": sth["adjusted"], "heights_derived": sth["points_checked"],
                              "by_construction": sth["by_construction"]},
            "rule": "final states of SurveySession.tla with noise = 0 (thinned by KeepNet/KeepEdit/Seed); every network is distinct in template, "
                    "optional observations, axes, angle sense or circle orientation; non-trivial = all (each has >= 2 unknown points)",
            "tlc_states": r0.distinct + r1.distinct + r2.distinct + r4.distinct + ra.distinct + rb.distinct + rh.distinct + r3.distinct, "law_checks": st1["law_checks"] + st2["law_checks"], "truth_checks": n, "adjusted": st0["adjusted"] + st1["adjusted"], "exhaustive": False}
