"""C02 - the four algorithms give the same adjustment.
 (a) API: every LsqCases problem is solved by envelope/cholesky/gso/svd through both entry
     points; defect, x, residuals, sum of squares, all q_xx and q_bb compared pairwise;
 (b) levelling networks through gama-local, all four --algorithm values;
 (c) SurveySession: SetAlgorithm edits on noisy 1-D/2-D/3-D networks (law: nothing changes),
     as single edits and inside random edit sessions."""
import lsq, levelling, sessions
LEVEL = "exploration"
NOISE = "{1, 2, 3}"


def run(ctx):
    q = ctx.quick
    a = lsq.api_check(ctx, "C02:")
    lv = levelling.check(ctx, want=("C02",), max_networks=250 if q else 4000)
    r1, one = sessions.generate(ctx, "c02a", {"Templates": sessions.ALL_TEMPLATES, "NoiseSet": NOISE, "MaxEdits": 1, "EditKinds": '{"SetAlgorithm"}',
                                              "KeepNet": 53 if q else 7, "KeepEdit": 1, "Seed": ctx.seed})
    r2, multi = sessions.generate(ctx, "c02b", {"Templates": sessions.ALL_TEMPLATES, "NoiseSet": NOISE, "MaxEdits": 4,
                                                "EditKinds": '{"SetAlgorithm", "Translate", "MirrorAxes", "SetSigmaApr", "Permute"}',
                                                "KeepNet": 1, "KeepEdit": 1, "Seed": ctx.seed}, simulate=100)
    multi = multi[:80 if q else 2000]
    # a second pass over the same solver object: a point whose standard deviation exceeds gama-local's limit is removed after the first
    # adjustment, the unknowns are renumbered and the network is adjusted again (WeakPoint), then the algorithm is changed
    r3, weak = sessions.generate(ctx, "c02c", {"Templates": sessions.ALL_TEMPLATES, "NoiseSet": NOISE, "MaxEdits": 2, "EditKinds": '{"WeakPoint", "SetAlgorithm"}',
                                               "KeepNet": 11 if q else 3, "KeepEdit": 1, "Seed": ctx.seed})
    weak = [s for s in weak if s["edits"][0]["e"]["k"] == "WeakPoint" and s["edits"][1]["e"]["k"] == "SetAlgorithm"]
    # WeakPoint 3, 4: the weight of the tying observations is below sqrt(machine epsilon) relative to the others
    tiny = [s for s in weak if s["edits"][0]["e"]["s"] >= 3]
    weak = [s for s in weak if s["edits"][0]["e"]["s"] <= 2]
    weak = weak[:: max(1, len(weak) // (400 if q else 6000))]
    tiny = tiny[:: max(1, len(tiny) // (200 if q else 3000))]
    ctx.note("SurveySession: %d SetAlgorithm sessions, %d mixed sessions, %d WeakPoint + SetAlgorithm sessions" % (len(one), len(multi), len(weak)))
    st1, _, _ = sessions.run_sessions(ctx, one, truth=False, laws=True)
    st2, _, _ = sessions.run_sessions(ctx, multi, truth=False, laws=True)
    st3, _, _ = sessions.run_sessions(ctx, weak, truth=False, laws=True)
    st4, _, _ = sessions.run_sessions(ctx, tiny, truth=False, laws=True, sigprefix="weaktiny_")
    for k_ in ("runs", "law_checks"):
        st3[k_] += st4[k_]
    for k_ in ("runs", "law_checks"):
        st2[k_] += st3[k_]
    # findings that belong to the MirrorAxes law of C07 are not C02's business
    ctx.viol = [v for v in ctx.viol if "inconsistent_system" not in v[0]]
    for k in list(ctx.sigcount):
        if "inconsistent_system" in k:
            del ctx.sigcount[k]
    if one:
        ctx.sample({"net": {k: one[0]["net"][k] for k in ("t", "axes", "noise")}, "edit": one[0]["edits"][0]["e"]})
    ctx.assume("'same' = 1e-8 relative at the API (well-conditioned exact universe), 3e-6 m / 3e-7 gon / 5e-5 relative on printed results")
    return {"evaluations": a["cases"] * 8 + lv["runs"] + st1["runs"] + st2["runs"], "distinct_nontrivial": a["nontrivial"] + len(one) + len(multi) + len(weak) + len(tiny),
            "rule": "LsqCases cases x 8 entry points pairwise; levelling networks x 4 algorithms; SurveySession sessions with SetAlgorithm edits; "
                    "non-trivial = rank deficient / correlated (API) or noisy network (sessions)",
            "api_checks_evaluated": a["nchecks"], "levelling": lv, "law_checks": st1["law_checks"] + st2["law_checks"],
            "tlc_states": a["tlc_states"] + r1.distinct + r2.distinct + r3.distinct, "exhaustive": False}
