"""C17 - statistical critical values invert the distributions they belong to.
harness/drv_statan evaluates Normal, Student, Chi_square and NormalDistribution of gama on a grid
(reference alphas x dofs, a dense grid of alpha down to 1e-12 and up to 1 - 1e-12, x in [-40, 40]);
the table is validated by TLC against spec/Quantiles.tla: Finite, Monotone, Symmetric, Inverse,
Accurate (committed scipy reference table, tolerances 1e-6 / 5e-4 / 5e-3)."""
import json, math, os
import vlib, statcheck
LEVEL = "other"


def fix(v):
    ip = math.floor(v)
    f = int(round((v - ip) * 1e9))
    if f >= 10 ** 9:
        ip += 1
        f -= 10 ** 9
    return {"i": int(ip), "f": f}


def run(ctx):
    R = statcheck.ref()
    q = ctx.quick
    dofs = [1, 2, 3, 5, 10, 30, 100, 1000] if q else R["dofs"]
    dense = sorted(set([10.0 ** (-k) for k in range(1, 13)] + [1 - 10.0 ** (-k) for k in range(1, 13)] + [i / 200.0 for i in range(1, 200)]))
    lines, meta = [], []

    def add(tok, m):
        lines.append(tok)
        meta.append(m)
    # reference accuracy series
    for i, a in enumerate(R["alphas"]):
        add("N %r" % a, {"ser": "ref", "idx": i, "ref": fix(R["normal"][i]), "ppm": 1})
    for n in dofs:
        for i, a in enumerate(R["alphas"]):
            add("S %r %d" % (a, n), {"ser": "ref", "idx": i, "ref": fix(R["student"][str(n)][i]), "ppm": 500})
    for n in dofs:
        for i, a in enumerate(R["alphas"]):
            if R["chi2"][str(n)][i] < 2000:
                add("C %r %d" % (a, n), {"ser": "ref", "idx": i, "ref": fix(R["chi2"][str(n)][i]), "ppm": 5000})
    # dense series: monotone, finite, symmetric
    base = len(lines)
    for i, a in enumerate(dense):
        add("N %r" % a, {"ser": "dense", "idx": i, "mirror_alpha": 1 - a})
    for n in ([1, 2, 7, 50] if q else [1, 2, 3, 4, 7, 20, 50, 200, 5000]):
        for i, a in enumerate(dense):
            add("S %r %d" % (a, n), {"ser": "dense", "idx": i, "mirror_alpha": 1 - a})
        for i, a in enumerate(dense):
            add("C %r %d" % (a, n), {"ser": "dense", "idx": i})
    for i, a in enumerate(dense):
        if 1e-9 <= a <= 1 - 1e-9:
            add("I %r" % a, {"ser": "inv", "idx": i, "afx": fix(a)})
    xs = [-40 + 0.25 * k for k in range(0, 321)]
    for i, x in enumerate(xs):
        add("D %r" % x, {"ser": "cdf", "idx": i})
    for x, v in sorted((float(k), v) for k, v in R["normal_cdf"].items()):
        add("D %r" % x, {"ser": "cdfref", "idx": 0, "ref": fix(v), "ppm": 2})
    bdir = vlib.build("plain", ["drv_statan"])
    gp = os.path.join(ctx.outdir, "grid.txt")
    open(gp, "w").write("\n".join(lines) + "\n")
    rc, out = vlib.sh([os.path.join(bdir, "drv_statan"), gp], timeout=600)
    recs = [json.loads(l) for l in out.splitlines() if l.startswith("{")]
    if rc != 0 or len(recs) != len(lines):
        ctx.violation("drv_statan|crash", "drv_statan rc=%s, %d of %d evaluations\n%s" % (rc, len(recs), len(lines), out[-800:]))
        return {"explanation": "driver failed", "evaluations": len(recs), "distinct_nontrivial": 2}
    # join: mirror indices (1-based positions in the table)
    pos = {}
    for k, (r_, m) in enumerate(zip(recs, meta), 1):
        r_.update({kk: vv for kk, vv in m.items() if kk != "mirror_alpha"})
        if "bad" in r_["fx"] and math.isfinite(r_["v"]):
            r_["big"] = 1
        pos[(r_["e"], r_.get("dof"), m["ser"], round(r_.get("alpha", r_.get("x", 0)), 15))] = k
    for k, (r_, m) in enumerate(zip(recs, meta), 1):
        if "mirror_alpha" in m:
            mk = pos.get((r_["e"], r_.get("dof"), m["ser"], round(m["mirror_alpha"], 15)))
            if mk:
                r_["mirror"] = mk
                a_ = min(r_["alpha"], 1 - r_["alpha"])
                # 1-a is not the exact mirror of a in double arithmetic: relative error up to 1.2e-16 / min(a, 1-a) in the tail
                # probability, and |d ln t / d ln a| <= 1 for every quantile here
                r_["sppm"] = 1 + int(math.ceil(2.4e-10 / a_))
    tp = os.path.join(ctx.outdir, "quantiles.ndjson")
    vlib.write_ndjson(tp, recs)
    t = vlib.tlc("Quantiles", "Quantiles.cfg", workers=1, env={"TRACE": tp}, timeout=1200, heap="4g")
    if t.outcome == "invariant":
        # TLC stops at the first violated law; every law is then evaluated on its own so that all of them are reported
        for law in ("Finite", "Monotone", "Symmetric", "Inverse", "Accurate"):
            cfg = os.path.join(vlib.SPEC, "_q_%s.cfg" % law)
            open(cfg, "w").write("SPECIFICATION Spec\nINVARIANT %s\nCHECK_DEADLOCK FALSE\n" % law)
            t1 = vlib.tlc("Quantiles", os.path.basename(cfg), workers=1, env={"TRACE": tp}, timeout=1200, heap="4g")
            os.remove(cfg)
            if t1.outcome not in ("ok", "invariant"):       # an evaluation error (overflow ...) must never read as "law holds"
                raise vlib.ModelFailure("Quantiles law %s: %s\n%s" % (law, t1.outcome, t1.out[-2500:]))
            if t1.outcome == "invariant" and not t1.cases:
                raise vlib.ModelFailure("Quantiles law %s violated without a report\n%s" % (law, t1.out[-2500:]))
            ctx.add("laws_evaluated")
            for c in t1.cases:
                for k in sorted(c["bad"]):
                    r_ = recs[k - 1]
                    a = r_.get("alpha")
                    region = "range" if a is None else ("tail<0.0005" if a < 0.0005 else ("tail>0.9995" if a > 0.9995 else "range"))       # [0.0005, 0.9995] is the accuracy range of the property
                    ctx.violation("quantiles|%s|%s|%s" % (c["law"], r_["e"], region), "law %s of Quantiles.tla fails at record %d: %s (next record: %s)" % (
                        c["law"], k, {x: r_[x] for x in r_ if x not in ("fx", "ref", "afx")}, {x: recs[k][x] for x in recs[k] if x not in ("fx", "ref", "afx")} if k < len(recs) else None),
                        replay={"table": tp, "record": k})
    elif t.outcome != "ok":
        raise vlib.ModelFailure("Quantiles: %s\n%s" % (t.outcome, t.out[-2500:]))
    ctx.sample(recs[0])
    ctx.sample(recs[base + 3])
    ctx.assume("accuracy clause decided against spec/data/quantiles_ref.json (scipy): TLA+ cannot define transcendental quantiles; relational clauses are decided in the specification")
    return {"explanation": "trace validation of a table of %d evaluations (reference grid %d alphas x %d dofs, dense grid of %d alphas incl. 1e-12 tails, %d cdf points) "
                           "against Quantiles.tla with TLC; invariants Finite, Monotone, Symmetric, Inverse, Accurate" % (len(recs), len(R["alphas"]), len(dofs), len(dense), len(xs)),
            "evaluations": len(recs), "distinct_nontrivial": len(recs), "traces_validated_against_impl": 1, "states": max(t.distinct, 1), "transitions": max(t.generated, 1)}
