"""LsqCases (TLC) -> text case file for drv_lsq / drv_solver; run and collect."""
import json, os, subprocess
import vlib


def case_id(c, k):
    return "%s-n%dm%d-%d" % (c["fam"], c["n"], c["m"], k)


def write_cases(cases, path, ids=None):
    with open(path, "w") as f:
        for k, c in enumerate(cases):
            cid = ids[k] if ids else case_id(c, k)
            f.write("PROB %s %d %d %d %d %d\n" % (cid, c["n"], c["m"], c["rank"], 1 if c["all"] else 0, 1 if c["adm"] else 0))
            f.write("A " + " ".join(str(v) for row in c["A"] for v in row) + "\n")
            f.write("B " + " ".join(str(v) for v in c["b"]) + "\n")
            f.write("NB %d\n" % len(c["blocks"]))
            for b in c["blocks"]:
                f.write("BLK %d %d %d " % (b["dim"], b["band"], b["det"]))
                f.write(" ".join(str(v) for row in b["C"] for v in row) + " ")
                f.write(" ".join(str(v) for row in b["W"] for v in row) + "\n")
            f.write("G %d " % len(c["G"]) + " ".join(str(v) for g in c["G"] for v in g) + "\n")
            f.write("S %d " % len(c["S"]) + " ".join(str(v) for v in c["S"]) + "\nEND\n")


def gen_cases(ctx, cfgname, consts, timeout=1500):
    """Write a cfg for LsqCases with the given constants, run TLC, return result."""
    cfg = os.path.join(vlib.SPEC, cfgname)
    with open(cfg, "w") as f:
        f.write("INIT Init\nNEXT Next\nCONSTANTS\n")
        for k, v in consts.items():
            f.write("  %s = %s\n" % (k, v))
        f.write("INVARIANT Emit\nINVARIANT CertSound\nCHECK_DEADLOCK FALSE\n")
    r = vlib.tlc("LsqCases", cfgname, timeout=timeout, tag=ctx.pid + "-lsq")
    os.remove(cfg)
    if r.outcome != "ok":
        raise vlib.ModelFailure("LsqCases generator: %s\n%s" % (r.outcome, r.out[-3000:]))
    r.cases.sort(key=lambda c: json.dumps(c, sort_keys=True))     # TLC's output order depends on worker scheduling
    r.lev = [c.get("lev") for c in r.cases]
    r.cases = [c["c"] for c in r.cases]
    return r


def tier_consts(ctx):
    if ctx.quick:
        return {"Families": '{"gen", "lev"}', "NSet": "{1, 2, 3}", "MSet": "{2, 3, 4, 7}",
                "KMat": 23, "KVar": 13, "Seed": ctx.seed}
    # measured: NSet up to 4 with KMat 29 / KVar 7 does not finish (32 M states after 40 min); these constants give about 1 M states
    return {"Families": '{"gen", "lev"}', "NSet": "{1, 2, 3}", "MSet": "{2, 3, 4, 5, 7, 8}",
            "KMat": 11, "KVar": 5, "Seed": ctx.seed}


def run_lsq(ctx, cases, kind="plain", maxfail=300, extra_env=None):
    bdir = vlib.build(kind, ["drv_lsq"])
    path = os.path.join(ctx.outdir, "lsq-cases.txt")
    write_cases(cases, path)
    env = vlib.ASAN_ENV if kind == "asan" else None
    if extra_env:
        env = dict(env or {}, **extra_env)
    rc, out = vlib.sh([os.path.join(bdir, "drv_lsq"), path, str(maxfail)], timeout=3000, env=env)
    recs = []
    for line in out.splitlines():
        if line.startswith("{"):
            recs.append(json.loads(line))
    summ = [r for r in recs if r.get("t") == "summary"]
    if rc != 0 or not summ:
        raise vlib.ModelFailure("drv_lsq failed rc=%s\n%s" % (rc, out[-3000:]))
    return recs, summ[0]


def api_check(ctx, prefix, kind="plain"):
    """Generate LsqCases with TLC, replay on the 8 solver entry points, report failures of
    the checks whose name starts with prefix (e.g. 'C01:'). Returns coverage dict pieces."""
    consts = tier_consts(ctx)
    r = gen_cases(ctx, "_gen_%s.cfg" % ctx.pid, consts)
    cases = r.cases
    ctx.note("TLC LsqCases: %d states, %d cases in %.1fs" % (r.distinct, len(cases), r.wall))
    recs, summ = run_lsq(ctx, cases, kind=kind, maxfail=2000)
    byid = {case_id(c, k): c for k, c in enumerate(cases)}
    nontrivial = 0
    for c in cases:
        corr = any(b["band"] > 0 for b in c["blocks"])
        if c["adm"] and (c["rank"] < c["n"] or corr):
            nontrivial += 1
    for rec in recs:
        if rec.get("t") == "fail" and rec["check"].startswith(prefix):
            c = byid.get(rec["case"], {})
            feat = "singular" if c and c["rank"] < c["n"] else "regular"
            sig = "api|%s|%s|%s" % (rec["check"], rec["path"], feat)
            ctx.violation(sig, "case %s path %s check %s: got %r expected %r %s" % (
                rec["case"], rec["path"], rec["check"], rec["lhs"], rec["rhs"], rec.get("extra", "")),
                replay={"case": c, "check": rec})
    nchecks = sum(v for k, v in summ["checks"].items() if k.startswith(prefix))
    for s in [x for x in recs if x.get("t") == "sample"][:3]:
        c = byid.get(s["case"])
        ctx.sample({"problem": {k: c[k] for k in ("A", "b", "S", "rank")}, "cov_blocks": [b["C"] for b in c["blocks"]],
                    "x_envelope": s["x_env"], "sum_of_squares": s["sumsq"]})
    return {"tlc_states": r.distinct, "cases": len(cases), "nontrivial": nontrivial, "nchecks": nchecks,
            "summary": summ, "consts": consts}
